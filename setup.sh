#!/bin/bash
# Nothing to compile: the checks are plain Python run by /venv/bin/python against
# the working tree of /repo.  Setup runs the engine self-test (toy coordinator
# with seeded bugs that the explorer must catch) and validates the manifest.
set -e
cd "$(dirname "${BASH_SOURCE[0]}")"
mkdir -p evidence replays
unset COVERAGE_PROCESS_START COVERAGE_PROCESS_CONFIG
export PYTHONDONTWRITEBYTECODE=1 PYTHONHASHSEED=0
PYTHONPATH="${LABTECH_SRC:-/repo}:$PWD" /venv/bin/python -m selftest.run
