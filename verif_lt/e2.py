"""E2 harness: the real coordinator (lab.py) + real run_or_load_task / cache /
serialization over SchedRunner + MemStorage, one execution per choice
sequence, and the oracles of the schedule properties evaluated on the
recorded event log against the reference evaluator.
"""
from __future__ import annotations

from dataclasses import dataclass, field, asdict
from typing import Any, Optional, Sequence

import labtech
from labtech.exceptions import LabError

from . import universe as U
from .common import HarnessError, Violation
from .explore import Chooser, ExploreStats, explore
from .sched_runner import MemStorage, SchedBackend, Spin
from .spec import Built, Ref, Spec, mk_spec, node_of_key, precache, reference


@dataclass(frozen=True)
class Config:
    spec: Spec
    requested: tuple                 # tuple of (node index, fresh instance?)
    precached: tuple = ()
    faults: tuple = ()               # node indices whose run() raises
    died: tuple = ()                 # node indices whose worker dies
    bust_cache: bool = False
    cof: bool = True                 # continue_on_failure
    batch: int = 2
    stutter: bool = False
    context: Optional[tuple] = None  # tuple of (key, value)
    emit: tuple = ()                 # tuple of (node index, emit pattern) - C19
    fault_exc: str = 'boom'          # what a faulty task raises: 'boom' (Exception) | 'exit' (SystemExit)
    corrupt: tuple = ()              # pre-cached nodes whose stored result file is damaged (metadata intact)
    history: str = ''                # what the same Lab object went through before the measured call: '' | 'failed-run_task'
    loglevel: str = 'INFO'           # level of the caller's labtech logger: 'INFO', or 'NOTSET' (then the root logger is at INFO) - C19

    def to_json(self):
        d = asdict(self)
        return d

    @staticmethod
    def from_json(d) -> 'Config':
        s = d['spec']
        spec = mk_spec(s['deps'], s['types'], s['place'], s['labels'], s['dup'])
        return Config(spec=spec, requested=tuple(tuple(r) for r in d['requested']),
                      precached=tuple(d['precached']), faults=tuple(d['faults']), died=tuple(d['died']),
                      bust_cache=d['bust_cache'], cof=d['cof'], batch=d['batch'], stutter=d['stutter'],
                      context=None if d['context'] is None else tuple(tuple(x) for x in d['context']),
                      emit=tuple(tuple(x) for x in d.get('emit', ())), fault_exc=d.get('fault_exc', 'boom'),
                      corrupt=tuple(d.get('corrupt', ())), loglevel=d.get('loglevel', 'INFO'), history=d.get('history', ''))

    def brief(self):
        return {'deps': self.spec.deps, 'types': self.spec.types, 'place': self.spec.place,
                'labels': self.spec.labels, 'dup': self.spec.dup, 'requested': self.requested,
                'precached': self.precached, 'faults': self.faults, 'died': self.died,
                'bust': self.bust_cache, 'cof': self.cof, **({'emit': self.emit} if self.emit else {}),
                **({'fault_exc': self.fault_exc} if self.fault_exc != 'boom' else {}),
                **({'corrupt': self.corrupt} if self.corrupt else {}), **({'loglevel': self.loglevel} if self.loglevel != 'INFO' else {}), **({'history': self.history} if self.history else {})}


def lab_history(lab, cfg, events=None):
    """Start from a non-initial state of the Lab OBJECT: it has already been through an earlier call.
    'failed-run_task': Lab.run_task of an unrelated task that fails (whatever that raises is the
    caller's business) - nothing of it may change how the next call treats failures."""
    if cfg.history == 'failed-run_task':
        U.WORLD.reset(epoch=7, faults=[900])
        try:
            lab.run_task(U.TN(label=900), disable_progress=True, disable_top=True)
        except (Spin, HarnessError):
            raise
        except BaseException:  # noqa
            pass
    elif cfg.history == 'aborted-run_tasks':
        # (only for Labs with continue_on_failure=False) a call with tasks of limited types that a failure
        # aborts while other tasks of those types are still in flight
        U.WORLD.reset(epoch=7, faults=[900])
        try:
            lab.run_tasks([U.TK(label=901), U.TK(label=902), U.TM(label=903), U.TM(label=900)], disable_progress=True, disable_top=True)     # never-cached limited types: nothing is stored
        except (Spin, HarnessError):
            raise
        except BaseException:  # noqa
            pass
    if cfg.history and events is not None:
        del events[:]


def call_run(lab, req, cfg, **kw):
    """The documented single-task entry point, Lab.run_task, is used whenever exactly one task is
    requested and nothing is planned to fail (it returns the bare result; a failing task has no
    result to return, so those runs stay with run_tasks)."""
    if cfg.bust_cache:
        kw['bust_cache'] = True     # an ordinary call does not mention bust_cache
    if len(req) == 1 and not cfg.faults and not cfg.died and not cfg.corrupt:
        return {req[0]: lab.run_task(req[0], **kw)}
    return lab.run_tasks(req, **kw)


@dataclass
class Obs:
    cfg: Config
    ref: Ref
    events: list
    world: list
    outcome: tuple                   # ('return', dict) | ('raise', exc)
    req_tasks: list
    built: Built
    storage: MemStorage
    metas: dict
    choices: list = field(default_factory=list)


def run_once(cfg: Config, chooser: Chooser) -> Obs:
    spec = cfg.spec
    ctx = dict(cfg.context) if cfg.context is not None else None
    built = Built(spec)
    storage = MemStorage()
    try:
        precache(storage, spec, built, cfg.precached, ctx, corrupt=cfg.corrupt)
        fault_labels = [spec.labels[i] for i in cfg.faults]
        died_labels = [spec.labels[i] for i in cfg.died]
        U.WORLD.reset(epoch=1, faults=fault_labels, fault_exc=cfg.fault_exc)
        backend = SchedBackend(chooser, batch=cfg.batch, stutter=cfg.stutter, died=died_labels,
                               horizon=4 * spec.n + 8)
        req = [built.get(i, fr) for i, fr in cfg.requested]
        lab = labtech.Lab(storage=storage, runner_backend=backend, continue_on_failure=cfg.cof,
                          notebook=False, context=ctx)
        if cfg.history:
            lab_history(lab, cfg, backend.events)
            U.WORLD.reset(epoch=1, faults=fault_labels, fault_exc=cfg.fault_exc)
        try:
            res = call_run(lab, req, cfg, disable_progress=True, disable_top=True)
            outcome = ('return', res)
        except Spin as e:
            outcome = ('spin', e)
        except HarnessError:
            raise
        except BaseException as e:  # noqa
            outcome = ('raise', e)
        ref = reference(spec, [i for i, _ in cfg.requested], precached=cfg.precached, faults=cfg.faults,
                        died=cfg.died, bust_cache=cfg.bust_cache, context=ctx, pre_context=ctx, corrupt=cfg.corrupt)
        metas = {}
        if backend.runner is not None:
            metas = dict(getattr(backend.runner, 'metas', {}))
        return Obs(cfg=cfg, ref=ref, events=backend.events, world=list(U.WORLD.log), outcome=outcome,
                   req_tasks=req, built=built, storage=storage, metas=metas, choices=chooser.choices)
    finally:
        storage.release()


def outcome_fp(obs: Obs):
    kind = obs.outcome[0]
    if kind == 'return':
        return ('return', tuple((U.tkey(k), repr(v)) for k, v in obs.outcome[1].items()))
    e = obs.outcome[1]
    return (kind, type(e).__name__, str(e)[:80])


# ---------------------------------------------------------------------------
# Oracles.  Each returns a list of (clause-key, message).

def _idx(obs: Obs):
    return node_of_key(obs.cfg.spec)


def aborted_by_failure(obs: Obs) -> bool:
    """continue_on_failure=False and some task failed: the run legitimately
    stops early."""
    return (not obs.cfg.cof) and any(ev[0] == 'yield' and ev[2] == 'fail' for ev in obs.events)


def oracle_c01(obs: Obs):
    out = []
    cfg, ref = obs.cfg, obs.ref
    if cfg.faults or cfg.died:
        return out
    if obs.outcome[0] != 'return':
        e = obs.outcome[1]
        out.append((f'no-return:{type(e).__name__}', f'run_tasks did not return: {type(e).__name__}: {e}'))
        return out
    res = obs.outcome[1]
    want_keys = []
    for t in obs.req_tasks:
        k = U.tkey(t)
        if k not in want_keys:
            want_keys.append(k)
    got_keys = [U.tkey(k) for k in res.keys()]
    if got_keys != want_keys:
        out.append(('keys-order', f'returned keys {got_keys} != requested (deduplicated, in order) {want_keys}'))
    idx = _idx(obs)
    for k, v in res.items():
        i = idx.get(U.tkey(k))
        if i is None or i not in ref.value:
            out.append(('foreign-key', f'returned key {U.tkey(k)} was not requested'))
            continue
        if v != ref.value[i]:
            out.append(('wrong-value', f'value for node {i} {U.tkey(k)}: got {v!r} want {ref.value[i]!r}'))
    return out


def oracle_c02(obs: Obs):
    out = []
    cfg, ref, spec = obs.cfg, obs.ref, obs.cfg.spec
    idx = _idx(obs)
    yielded = {}
    for ev in obs.events:
        if ev[0] == 'yield':
            yielded[ev[1]] = ev[2]
        elif ev[0] == 'submit':
            k, use_cache = ev[1], ev[2]
            i = idx.get(k)
            if i is None or use_cache:
                continue
            for j in spec.deps[i]:
                kj = (spec.types[j], spec.labels[j])
                if kj not in yielded:
                    out.append(('start-before-dep', f'node {i} {k} submitted for execution before dependency {j} {kj} finished'))
    # dependency reads inside run()
    for ev in obs.world:
        if ev[0] != 'read':
            continue
        _, k, kd, status, payload = ev
        j = idx.get(kd)
        if j is None:
            continue
        if j in ref.fails:
            if status == 'OK':
                out.append(('read-failed-dep-ok', f'{k} read a value {payload!r} from failed dependency {kd}'))
            elif payload != 'TaskError':
                out.append(('read-failed-dep-wrong-exc', f'{k} reading failed dependency {kd} raised {payload}'))
        elif j in ref.value:
            if status != 'OK':
                out.append(('read-good-dep-raised', f'{k} could not read finished dependency {kd}: {payload}'))
            elif payload != ref.value[j]:
                out.append(('read-wrong-value', f'{k} read {payload!r} from {kd}, real result is {ref.value[j]!r}'))
    return out


def oracle_c03(obs: Obs):
    out = []
    cfg, ref, spec = obs.cfg, obs.ref, obs.cfg.spec
    idx = _idx(obs)
    execs: dict = {}
    loads: dict = {}
    for ev in obs.events:
        if ev[0] in ('exec_ok', 'exec_fail'):
            if ev[0] == 'exec_fail' and len(ev) > 3 and ev[3] == 'ChildKilled':
                continue          # the (virtual) worker was killed inside run(): counted once, by its 'died' event
            (loads if ev[2] else execs).setdefault(ev[1], []).append(ev[0])
        elif ev[0] == 'died':
            execs.setdefault(ev[1], []).append('died')
    for k in set(execs) | set(loads):
        n_e, n_l = len(execs.get(k, [])), len(loads.get(k, []))
        if n_e + n_l > 1:
            out.append(('more-than-once', f'{k} executed {n_e}x and loaded {n_l}x in one run'))
        i = idx.get(k)
        if i is None:
            out.append(('outside-closure', f'{k} is not a node of the request'))
            continue
        if i not in ref.needed:
            out.append(('outside-closure', f'node {i} {k} executed/loaded but is outside the needed closure {sorted(ref.needed)}'))
        if i in ref.loads and n_e:
            out.append(('cached-executed', f'node {i} {k} is cached but was executed'))
        if i in ref.executes and n_l:
            out.append(('uncached-loaded', f'node {i} {k} is not cached (or bust_cache) but was loaded'))
    # reads of stored results, wherever they happen (a worker that fetches a dependency's result from
    # the cache itself loads it once more)
    reads: dict = {}
    for ev in obs.world:
        if ev[0] == 'result-read':
            reads[ev[1]] = reads.get(ev[1], 0) + 1
    for i in range(spec.n):
        k = (spec.types[i], spec.labels[i])
        n_r = reads.get(obs.built.canon[i].cache_key, 0)
        if n_r > 1:
            out.append(('more-than-once', f'the stored result of node {i} {k} was read {n_r} times in one run'))
        elif n_r and i in ref.executes and i not in ref.fails and execs.get(k):
            out.append(('more-than-once', f'node {i} {k} was executed and its stored result was read as well'))
    complete = obs.outcome[0] == 'return'
    if complete:
        touched = {idx[k] for k in set(execs) | set(loads) if k in idx}
        missing = ref.needed - touched
        if missing:
            out.append(('needed-not-run', f'needed nodes never executed/loaded: {sorted(missing)}'))
        # result_meta on every instance reachable through executed tasks
        seen_ids = set()

        def visit(inst):
            if id(inst) in seen_ids:
                return
            seen_ids.add(id(inst))
            k = U.tkey(inst)
            i = idx[k]
            want = obs.metas.get(k)
            if i in ref.fails:
                if inst.result_meta is not None:
                    out.append(('meta-on-failed', f'failed node {i} {k} carries result_meta {inst.result_meta}'))
            else:
                if want is None or inst.result_meta != want:
                    out.append(('meta-missing', f'instance of node {i} {k} has result_meta {inst.result_meta!r}, outcome meta {want!r}'))
            if i in ref.executes:
                for d in U.all_dep_instances(inst):
                    visit(d)
        for t in obs.req_tasks:
            visit(t)
    return out


def oracle_c04(obs: Obs):
    out = []
    for ev in obs.events:
        if ev[0] != 'submit':
            continue
        k, inflight = ev[1], ev[4]
        mp = U.MAX_PARALLEL[k[0]]
        same = sum(1 for kk in inflight if kk[0] == k[0]) + 1
        if mp is not None and same > mp:
            out.append(('type-limit', f'{same} tasks of type {k[0]} in flight at submit of {k}, max_parallel={mp}'))
    return out


def oracle_c05(obs: Obs):
    out = []
    cfg, ref, spec = obs.cfg, obs.ref, obs.cfg.spec
    idx = _idx(obs)
    submitted, yielded = set(), set()
    interrupted = False
    for ev in obs.events:
        if ev[0] == 'submit':
            submitted.add(ev[1])
        elif ev[0] == 'yield':
            yielded.add(ev[1])
        elif ev[0] in ('cancel', 'stop'):
            interrupted = True
        elif ev[0] == 'wait' and not interrupted:
            inflight = ev[1]
            for tname in set(spec.types):
                ready = []
                for i in sorted(ref.needed):
                    k = (spec.types[i], spec.labels[i])
                    if k[0] != tname or k in submitted:
                        continue
                    if i in ref.executes and any((spec.types[j], spec.labels[j]) not in yielded for j in spec.deps[i]):
                        continue
                    ready.append(i)
                if not ready:
                    continue
                mp = U.MAX_PARALLEL[tname]
                cnt = sum(1 for kk in inflight if kk[0] == tname)
                if mp is None or cnt < mp:
                    out.append(('ready-not-started', f'at rest with in-flight {inflight}: nodes {ready} of type {tname} '
                                                     f'are runnable (deps finished) and the type has {cnt}/{mp} active'))
    return out


def oracle_c10(obs: Obs):
    out = []
    cfg, ref, spec = obs.cfg, obs.ref, obs.cfg.spec
    if not (cfg.faults or cfg.died):
        return out
    idx = _idx(obs)
    req_nodes = [i for i, _ in cfg.requested]
    if cfg.cof:
        if obs.outcome[0] == 'spin':
            out.append(('no-termination', 'continue_on_failure=True: run_tasks never returns (keeps polling although nothing is running or runnable)'))
            return out
        if obs.outcome[0] != 'return':
            e = obs.outcome[1]
            out.append((f'cof-raised:{type(e).__name__}', f'continue_on_failure=True but run_tasks raised {type(e).__name__}: {e}'))
            return out
        res = obs.outcome[1]
        got = {idx[U.tkey(k)]: v for k, v in res.items()}
        for i in req_nodes:
            if i in ref.fails:
                if i in got:
                    out.append(('value-for-failed', f'a value {got[i]!r} was returned for failed node {i}'))
            else:
                if i not in got:
                    out.append(('missing-unaffected', f'no value returned for node {i}, which does not depend on a failed task'))
                elif got[i] != ref.value[i]:
                    out.append(('wrong-value', f'node {i}: got {got[i]!r} want {ref.value[i]!r}'))
        ok_exec = {ev[1] for ev in obs.events if ev[0] == 'exec_ok'}
        for i in ref.unaffected:
            k = (spec.types[i], spec.labels[i])
            if k not in ok_exec:
                out.append(('unaffected-not-executed', f'node {i} {k} does not depend on a failed task but was not executed'))
            elif U.CACHEABLE[k[0]] and not _cached_ok(obs, i):
                out.append(('unaffected-not-cached', f'node {i} {k} executed but is not cached'))
        for i in ref.fails:
            if i in cfg.precached:
                continue    # an entry stored by an earlier successful run may legitimately remain
            if U.CACHEABLE[spec.types[i]] and obs.built.canon[i].cache_key in obs.storage.d:
                out.append(('failed-cached', f'failed node {i} has a cache entry'))
    else:
        first_fail = None
        after = False
        for ev in obs.events:
            if ev[0] == 'yield' and ev[2] == 'fail' and first_fail is None:
                first_fail = ev[1]
                after = True
            elif after and ev[0] == 'submit':
                out.append(('submit-after-raise', f'{ev[1]} submitted after the failure of {first_fail}'))
        if first_fail is None:
            if obs.outcome[0] != 'return':
                e = obs.outcome[1]
                out.append((f'raised-without-failure:{type(e).__name__}', f'{type(e).__name__}: {e}'))
            return out
        if obs.outcome[0] != 'raise' or not isinstance(obs.outcome[1], LabError):
            out.append(('no-laberror', f'continue_on_failure=False, {first_fail} failed, outcome {obs.outcome[0]}: {obs.outcome[1]!r}'))
            return out
        e = obs.outcome[1]
        cause = e.__cause__
        i = idx[first_fail]
        if i in ref.own_fault and i in cfg.faults:
            if cfg.fault_exc == 'exit':
                if not isinstance(cause, SystemExit) or str(cause) != f'exit:{first_fail[1]}':
                    out.append(('wrong-cause', f'LabError cause is {cause!r}, expected SystemExit(exit:{first_fail[1]})'))
            elif cfg.fault_exc == 'mlflow-absent':
                if not isinstance(cause, LabError) or 'mlflow' not in str(cause):
                    out.append(('wrong-cause', f'LabError cause is {cause!r}, expected the LabError about mlflow not being importable'))
            elif cfg.fault_exc == 'filter':
                if not isinstance(cause, KeyError) or f'filter:{first_fail[1]}' not in str(cause):
                    out.append(('wrong-cause', f'LabError cause is {cause!r}, expected KeyError(filter:{first_fail[1]})'))
            elif not isinstance(cause, U.Boom) or cause.label != first_fail[1]:
                out.append(('wrong-cause', f'LabError cause is {cause!r}, expected Boom({first_fail[1]})'))
        elif i in cfg.died:
            if type(cause).__name__ != 'TaskDiedError':
                out.append(('wrong-cause', f'LabError cause is {cause!r}, expected TaskDiedError'))
        else:
            if type(cause).__name__ != 'TaskError':
                out.append(('wrong-cause', f'LabError cause is {cause!r}, expected TaskError (failed dependency read)'))
    return out


def _cached_ok(obs: Obs, i: int) -> bool:
    t = obs.built.canon[i]
    files = obs.storage.d.get(t.cache_key)
    if not files:
        return False
    try:
        r = t._lt.cache.load_result_with_meta(obs.storage, t)
    except BaseException:
        return False
    return r.value == obs.ref.value.get(i)


def oracle_c11(obs: Obs):
    out = []
    for ev in obs.events:
        if ev[0] == 'spin':
            out.append(('spin', 'coordinator keeps calling wait() with nothing in flight'))
        elif ev[0] == 'horizon':
            out.append(('horizon', 'run did not finish within the wait horizon'))
    if obs.outcome[0] == 'spin' and not out:
        out.append(('spin', 'execution ended by the spin guard'))
    return out


def oracle_c17(obs: Obs):
    out = []
    cfg, ref, spec = obs.cfg, obs.ref, obs.cfg.spec
    idx = _idx(obs)
    dependents: dict = {i: [d for d in ref.executes if i in spec.deps[d]] for i in range(spec.n)}
    yielded = set()
    nwait = 0
    interrupted = False
    for ev in obs.events:
        if ev[0] == 'yield':
            yielded.add(ev[1])
        elif ev[0] in ('cancel', 'stop'):
            interrupted = True
        elif ev[0] == 'remove':
            for k in ev[1]:
                i = idx.get(k)
                if i is None:
                    continue
                unfinished = [d for d in dependents[i] if (spec.types[d], spec.labels[d]) not in yielded]
                if unfinished:
                    out.append(('premature-release', f'result of node {i} {k} released while dependents {unfinished} have not finished'))
        elif ev[0] == 'get_result':
            if not ev[2]:
                out.append(('capture-after-release', f'get_result({ev[1]}) after the result was released'))
        elif ev[0] == 'wait' and not interrupted:
            nwait += 1
            for k in ev[2]:
                i = idx.get(k)
                if i is None:
                    continue
                unfinished = [d for d in dependents[i] if (spec.types[d], spec.labels[d]) not in yielded]
                if not unfinished:
                    out.append(('late-release', f'result of node {i} {k} still held at a rest point although every dependent finished'))
        elif ev[0] == 'close':
            if obs.outcome[0] == 'return' and ev[1]:
                out.append(('leak-at-return', f'runner still holds results {ev[1]} when run_tasks returns'))
    # capture: a requested task that finished successfully is in the returned dict (its result was
    # taken for the return value before it was released)
    if obs.outcome[0] == 'return':
        rk = getattr(obs, 'returned_keys', None)      # real-backend runs report the keys of the returned dict
        got = {idx.get(k) for k in rk} if rk is not None else {idx.get(U.tkey(k)) for k in obs.outcome[1]}
        for i, _ in cfg.requested:
            k = (spec.types[i], spec.labels[i])
            if i in ref.value and i not in got and any(ev[0] == 'yield' and ev[1] == k and ev[2] == 'ok' for ev in obs.events):
                out.append(('not-captured', f'requested node {i} {k} finished successfully but its result was released without being captured for the return value'))
    # a dependent that could not read a successfully finished dependency = released too early
    for ev in obs.world:
        if ev[0] == 'read' and ev[3] == 'ERR':
            j = idx.get(ev[2])
            if j is not None and j in ref.value:
                out.append(('read-after-release', f'{ev[1]} could not read finished dependency {ev[2]}: {ev[4]}'))
    return out


ORACLES = {
    'C01': oracle_c01, 'C02': oracle_c02, 'C03': oracle_c03, 'C04': oracle_c04, 'C05': oracle_c05,
    'C10': oracle_c10, 'C11': oracle_c11, 'C17': oracle_c17,
}


# ---------------------------------------------------------------------------

def explore_config(args):
    """Worker entry: exhaust all schedules of one configuration under the given
    oracles.  Returns a compact summary (picklable)."""
    cfg, props, max_exec = args
    from .common import silence_labtech
    silence_labtech()
    viols: list[Violation] = []
    seen_keys = set()
    n_viol_execs = 0

    def on_exec(ch: Chooser, obs: Obs):
        nonlocal n_viol_execs
        bad = False
        for p in props:
            for key, msg in ORACLES[p](obs):
                bad = True
                full = f'{p}:{key}'
                if full in seen_keys:
                    continue
                seen_keys.add(full)
                viols.append(Violation(prop=p, key=key, what=msg + f' | cfg={cfg.brief()} choices={ch.choices}',
                                       replay={'engine': 'e2', 'cfg': cfg.to_json(), 'choices': ch.choices,
                                               'prop': p, 'clause': key},
                                       size=cfg.spec.n * 100 + len(ch.choices) + ch.deviations()))
        if bad:
            n_viol_execs += 1

    stats = explore(lambda ch: run_once(cfg, ch), on_exec, max_executions=max_exec,
                    state_ns=None, outcome_of=outcome_fp, stop_when=lambda: n_viol_execs >= 500)
    return {
        'cfg': cfg.brief(), 'executions': stats.executions, 'states': len(stats.states),
        'transitions': len(stats.transitions), 'outcomes': len(stats.outcomes), 'capped': stats.capped,
        'max_depth': stats.max_depth, 'viols': viols, 'viol_execs': n_viol_execs,
    }


def replay(payload: dict) -> int:
    """Re-execute one recorded (configuration, choice sequence) without the
    explorer and print what the oracle sees.  Returns 1 if it still violates."""
    from .common import silence_labtech
    silence_labtech()
    cfg = Config.from_json(payload['cfg'])
    p = payload['prop']
    res = []
    for _ in range(2):
        ch = Chooser(payload['choices'])
        obs = run_once(cfg, ch)
        res.append(sorted(set(k for k, _ in ORACLES[p](obs))))
    if res[0] != res[1]:
        raise HarnessError(f'replay is not deterministic: {res}')
    ch = Chooser(payload['choices'])
    obs = run_once(cfg, ch)
    found = ORACLES[p](obs)
    print('config:', cfg.brief())
    print('choices:', payload['choices'])
    for ev in obs.events:
        print('  ', ev)
    print('outcome:', obs.outcome[0], repr(obs.outcome[1])[:300])
    for k, m in found:
        print(f'  {p}:{k}: {m}')
    return 1 if found else 0
