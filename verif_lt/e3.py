"""E3 harness: the real coordinator + real ForkProcessRunner / SpawnProcessRunner +
real ProcessExecutor over the virtual multiprocessing layer, under the spy (so
all E2 oracles apply) plus ground-truth oracles evaluated inside the virtual
world (C02 start time, C04 max_workers, C05 rest-point formula, C11 livelock,
C16 requested start method)."""
from __future__ import annotations

from dataclasses import dataclass, field, asdict, replace
from typing import Optional

import labtech
import labtech.runners.process as lt_process

from . import e2
from . import universe as U
from .common import HarnessError, Violation, silence_labtech
from .explore import Chooser, explore
from .sched_runner import MemStorage, Spin
from .spec import Built, mk_spec, node_of_key, precache, reference
from .spy import SpyBackend, _RecordRunOrLoad
from .vmp import Livelock, Patched, VWorld


@dataclass(frozen=True)
class E3Config:
    base: e2.Config
    backend: str = 'fork'            # 'fork' | 'spawn'
    max_workers: Optional[int] = 2
    cpu_count: int = 2
    log_mode: str = 'eager'
    die_exit0: bool = False
    liveness_choice: bool = True
    monitor: bool = False
    term_slow: bool = False          # workers do not die promptly when terminated
    queue_scale: Optional[int] = None   # bounded Manager queues are scaled down to this many slots
    linger: tuple = ()               # nodes whose worker process never exits by itself after sending its result
    prelude: bool = False            # an earlier run_tasks call through the SAME backend object was aborted by a failure (LabError)

    def to_json(self):
        d = asdict(self)
        d['base'] = self.base.to_json()
        return d

    @staticmethod
    def from_json(d):
        return E3Config(base=e2.Config.from_json(d['base']), backend=d['backend'], max_workers=d['max_workers'],
                        cpu_count=d['cpu_count'], log_mode=d['log_mode'], die_exit0=d['die_exit0'],
                        liveness_choice=d.get('liveness_choice', True), monitor=d.get('monitor', False), linger=tuple(d.get('linger', ())), queue_scale=d.get('queue_scale'), term_slow=d.get('term_slow', False), prelude=d.get('prelude', False))

    def brief(self):
        b = self.base.brief()
        b.update({'backend': self.backend, 'max_workers': self.max_workers, 'cpu_count': self.cpu_count})
        if self.die_exit0:
            b['die_exit0'] = self.die_exit0
        if self.monitor:
            b['displays'] = 'on'
        if self.linger:
            b['linger'] = self.linger
        if self.queue_scale:
            b['queue_scale'] = self.queue_scale
        if self.term_slow:
            b['term_slow'] = True
        if self.prelude:
            b['prelude'] = 'aborted call on the same backend object'
        return b

    @property
    def spec(self):
        return self.base.spec


class _BindingSpyBackend(SpyBackend):
    def __init__(self, inner, world, horizon):
        super().__init__(inner, horizon)
        self.world = world

    def build_runner(self, *, context, storage, max_workers):
        r = super().build_runner(context=context, storage=storage, max_workers=max_workers)
        self.world.bind_runner(r.inner)
        return r


@dataclass
class Obs3(e2.Obs):
    vworld: Optional[VWorld] = None
    gt: list = field(default_factory=list)     # ground-truth violations [(prop, key, msg)]


def run_once_e3(cfg: E3Config, chooser: Chooser, *, world_hook=None, around_run=None, terminate_choice=False, threaded=False,
                storage_hook=None) -> Obs3:
    base = cfg.base
    spec = base.spec
    ctx = dict(base.context) if base.context is not None else None
    built = Built(spec)
    storage = MemStorage()
    idx = node_of_key(spec)
    ref = reference(spec, [i for i, _ in base.requested], precached=base.precached, faults=base.faults,
                    died=base.died, bust_cache=base.bust_cache, context=ctx, pre_context=ctx, corrupt=base.corrupt)
    gt: list = []
    measured = [not cfg.prelude]       # False while the prelude call is running
    eff_workers = cfg.max_workers if cfg.max_workers is not None else cfg.cpu_count
    world = VWorld(chooser, cpu_count=cfg.cpu_count, log_mode=cfg.log_mode,
                   die_labels=[spec.labels[i] for i in base.died], die_exit0=cfg.die_exit0,
                   liveness_choice=cfg.liveness_choice, terminate_choice=terminate_choice, threaded=threaded, queue_scale=cfg.queue_scale)
    world.term_slow = cfg.term_slow
    world.linger_labels = frozenset(spec.labels[i] for i in cfg.linger)
    want_method = cfg.backend
    backend_events: list = []

    def on_start(w: VWorld, child, task):
        k = child.task_key
        execs = w.executing()
        if len(execs) + 1 > eff_workers:
            gt.append(('C04', 'max-workers', f'start of {k} while {[c.task_key for c in execs]} are executing: '
                                             f'{len(execs) + 1} > max_workers={eff_workers}'))
        mp = U.MAX_PARALLEL.get(k[0])
        same = sum(1 for c in execs if c.task_key[0] == k[0]) + 1
        if mp is not None and same > mp:
            gt.append(('C04', 'type-limit-process', f'{same} processes of type {k[0]} executing at start of {k}, max_parallel={mp}'))
        if child.method != want_method:
            gt.append(('C16', 'start-method', f'{cfg.backend} backend started the process for {k} with start method {child.method!r}'))
        i = idx.get(k)
        if measured[0] and (i is None or i not in ref.needed):
            gt.append(('C03', 'outside-closure-process', f'a worker process was started for {k}, which is not in the dependency closure of the requested tasks'))
        if i is not None and not child.use_cache:
            done = {c.task_key for c in w.children if c.result_committed or (c.state != 'running')}
            for j in spec.deps[i]:
                kj = (spec.types[j], spec.labels[j])
                if kj not in done:
                    gt.append(('C02', 'process-start-before-dep', f'process for {k} started before dependency {kj} finished'))
        if w.interrupted:
            gt.append(('C14', 'start-after-interrupt', f'process for {k} started after the interrupt'))
        if not base.cof and any(ev[0] == 'close' for ev in backend_events):
            # continue_on_failure=False: the coordinator has raised and is closing the runner
            gt.append(('C10', 'start-after-raise', f'process for {k} started after the failure made run_tasks raise (while the runner was being closed)'))

    def on_rest(w: VWorld):
        if w.interrupted:
            return
        # what labtech can know: completions yielded to the coordinator so far
        yielded = {ev[1] for ev in backend_events if ev[0] == 'yield'}
        occupying = [c for c in w.children if not getattr(c, 'foreign', False)
                     if c.state == 'running' and not c.result_consumed
                     or (c.state != 'running' and not c.result_consumed and not w.infinite_wait
                         and c.death_observed_round in (None, w.round))]
        started = {c.task_key for c in w.children}
        demand = 0
        for tname in set(spec.types):
            n_t = sum(1 for c in occupying if c.task_key[0] == tname)
            for i in sorted(ref.needed):
                k = (spec.types[i], spec.labels[i])
                if k[0] != tname or k in started:
                    continue
                if i in ref.executes and any((spec.types[j], spec.labels[j]) not in yielded for j in spec.deps[i]):
                    continue
                n_t += 1
            mp = U.MAX_PARALLEL[tname]
            demand += n_t if mp is None else min(mp, n_t)
        demand = min(eff_workers, demand)
        if len(occupying) < demand:
            gt.append(('C05', 'rest-below-capacity',
                       f'at rest {len(occupying)} processes occupy a slot ({[c.task_key for c in occupying]}), '
                       f'but min(max_workers={eff_workers}, runnable within type limits)={demand}'))
        elif len(occupying) > eff_workers:
            gt.append(('C04', 'max-workers-at-rest', f'{len(occupying)} processes at rest > max_workers={eff_workers}'))

    key_to_node = {}

    def parent_load(cache_key):
        # the coordinating process itself reads a stored result while run_tasks is in progress: for as
        # long as that takes (a large result, a slow store) nothing is scheduled
        w = world
        if w.current_child is not None or w.in_helper_thread or w.interrupted or any(ev[0] == 'run_tasks-left' for ev in w.events[-1:]):
            return
        if not key_to_node:
            for i in range(spec.n):
                key_to_node[built.canon[i].cache_key] = i
        me = key_to_node.get(cache_key)
        yielded = {ev[1] for ev in backend_events if ev[0] == 'yield'}
        started = {c.task_key for c in w.children}
        occupying = [c for c in w.children if not getattr(c, 'foreign', False) and c.state == 'running' and not c.result_consumed]
        waiting = []
        for i in sorted(ref.needed):
            k = (spec.types[i], spec.labels[i])
            if i == me or k in started or k in yielded:
                continue
            if i in ref.executes and any((spec.types[j], spec.labels[j]) not in yielded for j in spec.deps[i]):
                continue
            mp = U.MAX_PARALLEL[k[0]]
            if mp is not None and sum(1 for c in occupying if c.task_key[0] == k[0]) >= mp:
                continue
            waiting.append(k)
        if waiting and len(occupying) < eff_workers:
            gt.append(('C05', 'parent-load-blocks-scheduling',
                       f'the coordinating process loads the stored result of node {me} itself while {waiting} are runnable, '
                       f'unsubmitted and {eff_workers - len(occupying)} worker slot(s) are free'))
    MemStorage.READ_HOOK = parent_load
    world.on_join_block.append(lambda w, child: gt.append(
        ('C05', 'blocked-on-worker-exit', f'the scheduling loop waits for the worker process of {child.task_key} to exit although its result '
                                          'has been received (the process lingers): nothing else is started or collected meanwhile')))
    world.on_killed.append(lambda w, child: backend_events.append(('died', child.task_key)))
    world.on_start.append(on_start)
    world.on_rest.append(on_rest)
    if world_hook is not None:
        world_hook(world)
    orig_rol = lt_process.run_or_load_task
    try:
        precache(storage, spec, built, base.precached, ctx, corrupt=base.corrupt)
        if storage_hook is not None:
            storage_hook(storage, built)
        U.WORLD.reset(epoch=1, faults=[spec.labels[i] for i in base.faults], fault_exc=base.fault_exc,
                      emit={spec.labels[i]: pat for i, pat in base.emit})
        with Patched(world):
            inner = lt_process.ForkRunnerBackend() if cfg.backend == 'fork' else lt_process.SpawnRunnerBackend()
            backend = _BindingSpyBackend(inner, world, horizon=8 * spec.n + 16)
            backend.events = backend_events
            lt_process.run_or_load_task = _RecordRunOrLoad(backend_events, orig_rol)
            if cfg.prelude:
                # start from a non-initial state: an earlier, unrelated run_tasks call that went through
                # this very backend object (another Lab, another storage, other tasks, another epoch) was
                # aborted by a task failure with continue_on_failure=False while one worker was still
                # running and one task had not been started.  Nothing of it may show in the measured call.
                # (the failing task is the first one; depending on the schedule a finished result is
                # still held for a dependent, a worker is still running, tasks are still queued)
                pspec = mk_spec(((), (), (1,), (), ()), labels=(100, 101, 102, 103, 104))
                pbuilt = Built(pspec)
                st0 = MemStorage()
                U.WORLD.reset(epoch=7, faults=[100])
                try:
                    labtech.Lab(storage=st0, runner_backend=backend, continue_on_failure=False, notebook=False,
                                context=ctx, max_workers=2).run_tasks(list(pbuilt.canon), disable_progress=True, disable_top=True)
                except (Spin, Livelock, HarnessError):
                    raise
                except BaseException:  # noqa
                    pass
                finally:
                    st0.release()
                del backend_events[:]
                del gt[:]
                measured[0] = True
                world.disown_children()
                world.record('prelude-done')
                U.WORLD.reset(epoch=1, faults=[spec.labels[i] for i in base.faults], fault_exc=base.fault_exc,
                              emit={spec.labels[i]: pat for i, pat in base.emit})
                U.WORLD.die = frozenset()
            req = [built.get(i, fr) for i, fr in base.requested]
            lab = labtech.Lab(storage=storage, runner_backend=backend, continue_on_failure=base.cof,
                              notebook=False, context=ctx, max_workers=cfg.max_workers)
            if base.history:
                measured[0] = False
                e2.lab_history(lab, base, backend_events)
                del gt[:]
                measured[0] = True
                world.disown_children()
                world.record('history-done', base.history)
                U.WORLD.reset(epoch=1, faults=[spec.labels[i] for i in base.faults], fault_exc=base.fault_exc,
                              emit={spec.labels[i]: pat for i, pat in base.emit})
            import contextlib
            import io
            # with the displays on, tqdm and the task monitor write to stderr: keep the console quiet
            quiet = contextlib.redirect_stderr(io.StringIO()) if cfg.monitor else contextlib.nullcontext()
            try:
                if base.precached:
                    [lab.is_cached(t) for t in built.canon]
                with quiet, (around_run(world) if around_run is not None else contextlib.nullcontext()):
                    res = e2.call_run(lab, req, base, disable_progress=not cfg.monitor, disable_top=not cfg.monitor,
                                      **({'top_n': 1} if cfg.monitor else {}))     # a display smaller than the number of workers
                outcome = ('return', res)
            except (Spin, Livelock) as e:
                outcome = ('spin', e)
            except HarnessError:
                raise
            except BaseException as e:  # noqa
                outcome = ('raise', e)
            world.record('run_tasks-left', outcome[0])
            world.finish_children()
            if world.sched is not None:
                world.sched.shutdown()
        metas = dict(backend.runner.metas) if backend.runner else {}
        o = Obs3(cfg=base, ref=ref, events=backend_events, world=list(U.WORLD.log), outcome=outcome,
                 req_tasks=req, built=built, storage=storage, metas=metas, choices=chooser.choices,
                 vworld=world, gt=gt)
        o.lab = lab
        return o
    finally:
        lt_process.run_or_load_task = orig_rol
        MemStorage.READ_HOOK = None
        if world.sched is not None and not world.sched.closing:
            try:
                world.sched.shutdown()      # an error is on its way out: do not leave threads parked
            except BaseException:  # noqa
                pass
        storage.release()


def oracle_gt(prop):
    def f(obs: Obs3):
        out = [(k, m) for p, k, m in obs.gt if p == prop]
        return out
    return f


def oracle_c11_e3(obs: Obs3):
    out = e2.oracle_c11(obs)
    if any(ev[0] == 'livelock' for ev in obs.vworld.events):
        out.append(('livelock', 'the parent keeps polling although no process can ever deliver a result'))
    return out


def combined(prop):
    base = e2.ORACLES.get(prop)
    gtf = oracle_gt(prop)

    def f(obs):
        out = []
        if prop == 'C11':
            out.extend(oracle_c11_e3(obs))
        elif base is not None:
            out.extend(base(obs))
        out.extend(gtf(obs))
        return out
    return f


ORACLES3 = {p: combined(p) for p in ('C01', 'C02', 'C03', 'C04', 'C05', 'C10', 'C11', 'C16', 'C17')}


def explore_config_e3(args):
    cfg, props, max_exec, max_dev = args
    silence_labtech()
    viols: list[Violation] = []
    seen = set()
    n_bad = 0

    def on_exec(ch: Chooser, obs: Obs3):
        nonlocal n_bad
        bad = False
        for p in props:
            for key, msg in ORACLES3[p](obs):
                bad = True
                full = f'{p}:{key}'
                if full in seen:
                    continue
                seen.add(full)
                viols.append(Violation(prop=p, key=f'{cfg.backend}:{key}',
                                       what=f'[real {cfg.backend} ProcessRunner over virtual processes] {msg} | cfg={cfg.brief()} choices={ch.choices}',
                                       replay={'engine': 'e3', 'cfg': cfg.to_json(), 'choices': ch.choices, 'prop': p, 'clause': key},
                                       size=cfg.spec.n * 100 + len(ch.choices) + ch.deviations()))
        if bad:
            n_bad += 1

    stats = explore(lambda ch: run_once_e3(cfg, ch), on_exec, max_executions=max_exec, max_deviations=max_dev,
                    outcome_of=e2.outcome_fp, stop_when=lambda: n_bad >= 100)
    return {'cfg': cfg.brief(), 'executions': stats.executions, 'states': len(stats.states),
            'transitions': len(stats.transitions), 'outcomes': len(stats.outcomes), 'capped': stats.capped,
            'max_depth': stats.max_depth, 'viols': viols, 'viol_execs': n_bad}


def replay(payload: dict) -> int:
    silence_labtech()
    cfg = E3Config.from_json(payload['cfg'])
    p = payload['prop']
    res = []
    for _ in range(2):
        obs = run_once_e3(cfg, Chooser(payload['choices']))
        res.append(sorted(set(k for k, _ in ORACLES3[p](obs))))
    if res[0] != res[1]:
        raise HarnessError(f'replay is not deterministic: {res}')
    obs = run_once_e3(cfg, Chooser(payload['choices']))
    found = ORACLES3[p](obs)
    print('config:', cfg.brief())
    print('choices:', payload['choices'])
    print('--- coordinator/runner events')
    for ev in obs.events:
        print('  ', ev)
    print('--- virtual OS events')
    for ev in obs.vworld.events:
        print('  ', ev)
    print('outcome:', obs.outcome[0], repr(obs.outcome[1])[:300])
    for k, m in found:
        print(f'  {p}:{k}: {m}')
    return 1 if found else 0
