"""E4 - real-backend conformance runs.

One E2 configuration is executed on the *real* fork / spawn backend (real processes,
LocalStorage on a scratch directory) in a fresh interpreter in its own session, under the
pass-through spy.  The recorded submit/yield trace is replayed against SchedRunner (trace
conformance: same submissions for the same completion batches, same outcome), the E2
oracles are evaluated on the real trace, and the start/end timestamps written by the task
bodies give the real maximum concurrency.
"""
from __future__ import annotations

import json
import os
import shutil
import sys
import tempfile
from types import SimpleNamespace

from . import e2
from . import universe as U
from .common import HarnessError, silence_labtech
from .realrun import py_env, run_isolated


def child_main(cfg_json: str, backend: str, mw: str, storage_dir: str):
    """Runs inside the isolated interpreter."""
    silence_labtech()
    import labtech
    import labtech.runners.process as lt_process
    from .spec import Built, precache, reference
    from .spy import SpyBackend, _RecordRunOrLoad
    cfg = e2.Config.from_json(json.loads(cfg_json))
    spec = cfg.spec
    ctx = dict(cfg.context) if cfg.context is not None else None
    built = Built(spec)
    storage = labtech.storage.LocalStorage(storage_dir)
    precache(storage, spec, built, cfg.precached, ctx)
    os.environ['VERIF_FAULTS'] = ','.join(str(spec.labels[i]) for i in cfg.faults)
    os.environ['VERIF_DIE'] = ','.join(str(spec.labels[i]) for i in cfg.died)
    U.WORLD.reset(epoch=1, faults=[spec.labels[i] for i in cfg.faults], file=os.environ.get('VERIF_WORLD_FILE'))
    U.WORLD.die = frozenset(spec.labels[i] for i in cfg.died)
    inner = lt_process.ForkRunnerBackend() if backend == 'fork' else lt_process.SpawnRunnerBackend()
    spy = SpyBackend(inner, horizon=100000)
    req = [built.get(i, fr) for i, fr in cfg.requested]
    lab = labtech.Lab(storage=storage, runner_backend=spy, continue_on_failure=cfg.cof, notebook=False, context=ctx,
                      max_workers=(None if mw == 'None' else int(mw)))
    try:
        res = e2.call_run(lab, req, cfg, disable_progress=True, disable_top=True)
        outcome = ('return', res)
    except BaseException as e:  # noqa
        outcome = ('raise', e)
    fp = e2.outcome_fp(SimpleNamespace(outcome=outcome))
    cached = {}
    for i in range(spec.n):
        t = built.canon[i]
        try:
            cached[i] = bool(lab.is_cached(t)) and t._lt.cache.load_result_with_meta(storage, t).value == stored(spec, i, ctx)
        except BaseException:  # noqa
            cached[i] = False
    print(json.dumps({'events': [list(map(_j, ev)) for ev in spy.events], 'outcome': _j(fp), 'cached_ok': cached,
                      'metas': {repr(k): True for k in (spy.runner.metas if spy.runner else {})}}))


def stored(spec, i, ctx):
    from .spec import stored_value
    return stored_value(spec, i, ctx, 1)


def _j(x):
    if isinstance(x, tuple):
        return [_j(y) for y in x]
    if isinstance(x, (list,)):
        return [_j(y) for y in x]
    if isinstance(x, (str, int, float, bool)) or x is None:
        return x
    return repr(x)


def _t(x):
    if isinstance(x, list):
        return tuple(_t(y) for y in x)
    return x


def real_case(args):
    """Parent side.  Returns dict(summary)."""
    cfg, backend, mw, props = args
    silence_labtech()
    tmp = tempfile.mkdtemp(prefix='e4_')
    try:
        wf = os.path.join(tmp, 'world.log')
        open(wf, 'w').close()
        rc, so, se = run_isolated([sys.executable, '-m', 'verif_lt.e4', json.dumps(cfg.to_json()), backend, str(mw), os.path.join(tmp, 'st')],
                                  env=py_env(2, VERIF_WORLD_FILE=wf, VERIF_EPOCH=1), timeout=120)
        d = f'backend={backend} max_workers={mw} cfg={cfg.brief()}'
        viols = []
        if rc is None:
            viols.append(('C11', f'{backend}:real-run-timeout', f'[real {backend} backend] run_tasks did not finish within 120 s: {d}'))
            return {'viols': viols, 'validated': False, 'max_conc': 0}
        if rc != 0:
            raise HarnessError(f'real-backend run failed ({rc}): {se[-800:]}')
        out = json.loads(so.strip().splitlines()[-1])
        events = [_t(ev) for ev in out['events']]
        world = []
        intervals = {}
        for l in open(wf):
            if not l.strip():
                continue
            e = json.loads(l)
            ev = _t(e[2:-1])
            world.append(ev)
            if ev[0] == 'start':
                intervals[ev[1]] = [e[-1]['t'], None, e[0]]
            elif ev[0] in ('end', 'raise', 'suicide') and ev[1] in intervals:
                intervals[ev[1]][1] = e[-1]['t']
        # failed reads end an interval too
        for l in open(wf):
            if l.strip():
                e = json.loads(l)
                if e[2] == 'read' and e[5] == 'ERR':
                    k = _t(e[3])
                    if k in intervals and intervals[k][1] is None:
                        intervals[k][1] = e[-1]['t']
        pts = []
        for k, (a, b, pid) in intervals.items():
            if b is not None:
                pts.append((a, 1))
                pts.append((b, -1))
        cur = mx = 0
        for _, dlt in sorted(pts, key=lambda p: (p[0], p[1])):
            cur += dlt
            mx = max(mx, cur)
        eff = os.cpu_count() if mw is None else mw
        if mx > eff:
            viols.append(('C04', f'{backend}:real-max-workers', f'[real {backend} backend] {mx} task bodies overlapped in time, max_workers={mw}: {d}'))
        # E2 oracles on the real trace
        from .spec import Built, reference
        spec = cfg.spec
        ctx = dict(cfg.context) if cfg.context is not None else None
        ref = reference(spec, [i for i, _ in cfg.requested], precached=cfg.precached, faults=cfg.faults, died=cfg.died,
                        bust_cache=cfg.bust_cache, context=ctx, pre_context=ctx)
        obs = SimpleNamespace(cfg=cfg, ref=ref, events=events, world=world, outcome=('real', None))
        for p in props:
            if p in ('C02', 'C04', 'C05', 'C11', 'C17'):
                fake = SimpleNamespace(cfg=cfg, ref=ref, events=events, world=world,
                                       outcome=('return', {}) if out['outcome'][0] == 'return' else ('raise', None),
                                       returned_keys=({tuple(kv[0]) for kv in out['outcome'][1]} if out['outcome'][0] == 'return' else None))
                for key, msg in e2.ORACLES[p](fake):
                    viols.append((p, f'{backend}:real:{key}', f'[real {backend} backend] {msg} | {d}'))
        # trace conformance against SchedRunner
        from .spy import conformance_trace_raw
        rej = conformance_trace_raw(cfg, events, _t(out['outcome']))
        return {'viols': viols, 'validated': rej is None and not viols, 'rejected': rej, 'max_conc': mx,
                'trace': [ev[:3] for ev in events if ev[0] in ('submit', 'yield')][:12]}
    finally:
        shutil.rmtree(tmp, ignore_errors=True)


if __name__ == '__main__':
    child_main(*sys.argv[1:5])
