"""Task universe for the schedule/fault harnesses (E5 part 1).

Task types live at module level (pickle / spawn / deserialize_class need
that).  All of them share one run() body that

  * records start / dependency reads / end in the WORLD recorder (in-process)
    and, when WORLD.file is set, in an append-only file (real processes);
  * finds its dependencies with an independent traversal (not labtech's);
  * returns ('N', type, label, context-view, (dependency values...), epoch).

Only int / None / nested-task fields are used, so hashes (and therefore set
iteration orders inside labtech) do not depend on PYTHONHASHSEED.
"""
from __future__ import annotations

import json
import os
import sys
import threading
from typing import Any

from frozendict import frozendict

import labtech
from labtech.cache import BaseCache
from labtech.types import is_task


class Boom(Exception):
    """The failure a faulty task raises from run()."""

    def __init__(self, label):
        super().__init__(f'boom:{label}')
        self.label = label

    def __reduce__(self):
        return (Boom, (self.label,))


class ExcResult(Exception):
    """An exception object that a task RETURNS as its (successful) result - e.g. a validation task
    reporting what it found.  Compares by content so that a copy that went through a cache or a
    process boundary equals the original."""

    def __eq__(self, other):
        return type(other) is ExcResult and other.args == self.args

    def __hash__(self):
        return hash(('ExcResult', self.args))


class ChildKilled(BaseException):
    """Raised inside a virtual worker (E3) at the instant it is killed; vmp discards everything
    the unwinding produces afterwards (a SIGKILL runs no finally clause)."""


class _FakeRun:
    def __init__(self, mod):
        self.mod = mod

    def __enter__(self):
        return self

    def __exit__(self, *exc):
        self.mod.end_run()
        return False


class _FakeMlflow(type(sys)):
    """Stand-in for the mlflow package (the real one is slow to import and writes ./mlruns), keeping
    the one rule of its run API that matters here: at most one active run per process."""

    def __init__(self):
        super().__init__('mlflow')
        self.active = None
        self.calls: list = []

    def start_run(self, *a, **kw):
        if self.active is not None:
            raise Exception('Run with UUID fake is already active. To start a new run, first end the current run with mlflow.end_run().')
        self.active = _FakeRun(self)
        self.calls.append(('start_run',))
        return self.active

    def end_run(self, status='FINISHED'):
        self.active = None
        self.calls.append(('end_run', status))

    def active_run(self):
        return self.active

    def set_tag(self, key, value):
        self.calls.append(('set_tag', key, value))

    def log_param(self, key, value):
        self.calls.append(('log_param', key))

    def log_params(self, params):
        self.calls.append(('log_params',))


FAKE_MLFLOW = _FakeMlflow()


class World:
    """Ground-truth recorder shared by harness, tasks and runners."""

    def __init__(self):
        # environment-driven initial state: a spawned worker is a fresh interpreter and
        # learns the harness parameters of a real-backend run (E4) this way
        self.reset(epoch=int(os.environ.get('VERIF_EPOCH', '1')), file=os.environ.get('VERIF_WORLD_FILE') or None,
                   faults=[int(x) for x in os.environ.get('VERIF_FAULTS', '').split(',') if x])
        self.die = frozenset(int(x) for x in os.environ.get('VERIF_DIE', '').split(',') if x)
        if os.environ.get('VERIF_EMIT'):
            self.emit = {int(k): v for k, v in json.loads(os.environ['VERIF_EMIT']).items()}

    def reset(self, *, epoch: int = 1, faults=(), file: str | None = None, emit=None, on_run=None, fault_exc: str = 'boom'):
        self.fault_exc = fault_exc            # 'boom': an Exception subclass; 'exit': SystemExit (a BaseException that is no Exception)
        self.epoch = epoch
        self.faults = frozenset(faults)       # labels whose run() raises
        self.log: list[tuple] = []
        self.file = file
        self.emit = emit or {}                # label -> emit pattern (C19)
        self.on_run = on_run                  # optional callback(task) inside run()
        self.child = None                     # index of the virtual child executing (E3)
        self.kill_labels = frozenset()        # labels whose virtual worker is killed at the start of run() (E3)
        self.kill_hook = lambda: None
        self.record_env = bool(os.environ.get('VERIF_RECORD_ENV'))
        self.die = frozenset()                # labels whose run() kills its own process (real backends only)
        # mlflow as seen by task types declared with mlflow_run=True: the stand-in, or not installed at all
        FAKE_MLFLOW.active = None
        sys.modules['mlflow'] = None if fault_exc == 'mlflow-absent' else FAKE_MLFLOW

    def rec(self, *ev):
        self.log.append(ev)
        if self.file:
            import time
            line = json.dumps([os.getpid(), threading.get_ident(), *ev, {'t': time.monotonic()}]) + '\n'
            fd = os.open(self.file, os.O_WRONLY | os.O_APPEND | os.O_CREAT, 0o644)
            try:
                os.write(fd, line.encode())
            finally:
                os.close(fd)


WORLD = World()

FIELDS = ('d0', 'd1', 'd2', 'd3', 'coll')


def tkey(task) -> tuple:
    """Identity of a harness task as used in event logs: (type name, label)."""
    return (type(task).__name__, task.label)


def own_deps(task) -> list:
    """Independent dependency finder: tasks anywhere in the parameters, in
    field order, depth-first, de-duplicated by (type, label)."""
    out, seen = [], set()

    def walk(v):
        if is_task(v):
            k = tkey(v)
            if k not in seen:
                seen.add(k)
                out.append(v)
        elif isinstance(v, (tuple, list)):
            for x in v:
                walk(x)
        elif isinstance(v, (dict, frozendict)):
            for x in v.values():
                walk(x)

    for f in FIELDS + getattr(type(task), 'EXTRA_FIELDS', ()):
        walk(getattr(task, f))
    return out


def all_dep_instances(task) -> list:
    """Every task *object* anywhere in the parameters (equal tasks may be present as several
    distinct instances; each of them must be usable inside run())."""
    out, seen = [], set()

    def walk(v):
        if is_task(v):
            if id(v) not in seen:
                seen.add(id(v))
                out.append(v)
        elif isinstance(v, (tuple, list)):
            for x in v:
                walk(x)
        elif isinstance(v, (dict, frozendict)):
            for x in v.values():
                walk(x)

    for f in FIELDS + getattr(type(task), 'EXTRA_FIELDS', ()):
        walk(getattr(task, f))
    return out


def ctx_view(task):
    ctx = task.context
    if ctx is None:
        return None
    if ctx.get('_noview'):
        return ()
    return tuple(sorted((k, v) for k, v in ctx.items() if not k.startswith('_')))


def emit_tokens(label, pattern: str) -> list:
    """Tokens a task with this emit pattern makes visible (one per log/print/err step)."""
    out = []
    for i, step in enumerate(pattern.split('+')):
        if step in ('log', 'warn', 'print', 'err', 'iprint', 'nprint', 'exc', 'wprint', 'eprint', 'rprint', 'dlog', 'tprint', 'bprint'):
            out.append(f'<{label}.{i}>')
        elif step.startswith('burst'):
            out.extend(f'<{label}.{i}.{j}>' for j in range(int(step[5:])))
    return out


class _StreamWrapper:
    """What tee-like helpers and progress libraries install: writes and flushes go to the wrapped stream."""

    def __init__(self, inner):
        self.inner = inner

    def write(self, s):
        return self.inner.write(s)

    def flush(self):
        return self.inner.flush()


def _emit(task):
    pat = WORLD.emit.get(task.label)
    if not pat:
        return
    import sys
    from labtech.utils import logger
    for i, step in enumerate(pat.split('+')):
        tok = f'<{task.label}.{i}>'
        if step == 'log':
            logger.info(f'log{tok}')
        elif step == 'warn':
            logger.warning(f'warn{tok}')
        elif step == 'dlog':                        # the task lowers the logger's level itself and logs below the caller's level
            import logging
            logger.setLevel(logging.DEBUG)
            logger.debug(f'dbg{tok}')
        elif step == 'print':
            print(f'out{tok}')
        elif step == 'exc':                         # a record carrying a traceback
            try:
                raise ValueError('inner problem')
            except ValueError:
                logger.exception(f'exc{tok}')
        elif step == 'wprint':                      # an unterminated write
            sys.stdout.write(f'out{tok}')
        elif step == 'eprint':                      # print without the trailing newline
            print(f'out{tok}', end='')
        elif step == 'iprint':                      # an indented line
            print(f'    out{tok}')
        elif step == 'nprint':                      # text starting with a blank line
            print(f'\nout{tok}')
        elif step.startswith('burst'):
            for j in range(int(step[5:])):
                logger.info(f'b<{task.label}.{i}.{j}>')
        elif step == 'rprint':                      # a chunk that starts with a carriage return (progress redraw)
            sys.stdout.write(f'\rout{tok}')
        elif step == 'die':                         # the worker process is killed right here (SIGKILL / os._exit)
            WORLD.rec('suicide', tkey(task))
            if WORLD.child is not None:
                WORLD.kill_hook()
                raise ChildKilled()
            import signal
            os.kill(os.getpid(), signal.SIGKILL)
        elif step == 'tprint':                      # printed by a helper thread of the task, joined before run() goes on
            th = threading.Thread(target=print, args=(f'out{tok}',))
            th.start()
            th.join()
        elif step == 'bprint':                      # the common idiom: write bytes to the underlying buffer if the stream has one
            buf = getattr(sys.stdout, 'buffer', None)
            if buf is not None:
                buf.write(f'out{tok}\n'.encode())
                buf.flush()
            else:
                print(f'out{tok}')
        elif step == 'wrap':                        # the task puts its own wrapper around the stream it found and leaves it there
            sys.stdout = _StreamWrapper(sys.stdout)
        elif step == 'flush':
            sys.stdout.flush()
        elif step == 'err':
            sys.stderr.write(f'err{tok}\n')
        elif step == 'eflush':
            sys.stderr.flush()


PARENT_MARK = 'import-time'     # a module global the caller mutates after import (C16 process model)


def _record_env(self, k):
    import multiprocessing
    ctx = self.context
    WORLD.rec('env', k, os.getpid(), os.getppid(), threading.get_ident(),
              multiprocessing.get_start_method(allow_none=True), PARENT_MARK,
              None if ctx is None else sorted((str(a), repr(b)) for a, b in ctx.items()),
              sys.modules['__main__'].__name__ if hasattr(sys.modules.get('__main__'), '__name__') else None,
              getattr(sys.modules.get('__main__'), '__spec__', None) is not None and sys.modules['__main__'].__spec__.name or None)


def _run(self):
    k = tkey(self)
    WORLD.rec('start', k)
    if WORLD.child is not None and self.label in WORLD.kill_labels:
        WORLD.kill_hook()
        raise ChildKilled()
    if WORLD.record_env:
        _record_env(self, k)
    bd = os.environ.get('VERIF_BARRIER_DIR')
    if bd:
        # real-backend concurrency observation (E4): stay inside run() until the driver releases us
        import time
        WORLD.rec('blocked', k)
        deadline = time.monotonic() + 180
        while not os.path.exists(os.path.join(bd, f'go_{self.label}')):
            if time.monotonic() > deadline:
                raise RuntimeError('barrier was never released')
            time.sleep(0.005)
    if self.label in WORLD.die:
        import signal
        WORLD.rec('suicide', k)
        os.kill(os.getpid(), signal.SIGKILL)
    _emit(self)
    if WORLD.on_run is not None:
        WORLD.on_run(self)
    if type(self).__name__ == 'TP':
        with self.guard:
            if self.helper() != self.derived:
                raise RuntimeError('post_init-derived helper is wrong')
    vals = []
    seen_keys = set()
    for dep in all_dep_instances(self):      # every instance is read, the value of each distinct dependency is used once
        try:
            v = dep.result
        except BaseException as e:
            WORLD.rec('read', k, tkey(dep), 'ERR', type(e).__name__)
            raise
        WORLD.rec('read', k, tkey(dep), 'OK', v)
        if tkey(dep) not in seen_keys:
            seen_keys.add(tkey(dep))
            vals.append(v)
    if self.label in WORLD.faults and WORLD.fault_exc != 'filter':
        WORLD.rec('raise', k)
        if WORLD.fault_exc == 'exit':
            raise SystemExit(f'exit:{self.label}')      # e.g. a library calling sys.exit() inside a task
        # chained, so that a coordinator reporting the *cause* of the task's own
        # exception instead of the exception itself is visible
        raise Boom(self.label) from KeyError('inner-cause')
    value = ('N', k[0], k[1], ctx_view(self), tuple(vals), WORLD.epoch)
    if self.context is not None and self.context.get('_return_self'):
        value = value + (self,)          # a result that references the task object itself
    WORLD.rec('end', k)
    if k[0] == 'TZ':
        return None                # run for its side effects only
    if k[0] == 'TE':
        return ExcResult(value)    # an exception object as an ordinary result
    return value


def _filter_even(self, context):
    """Per-parameter context filter used by the TF type: keeps the key named
    after the parity of the label (and harness-private '_' keys)."""
    keep = f'k{self.label % 2}'
    return {k: v for k, v in context.items() if k == keep or k.startswith('_')}


def _filter_counting(self, context):
    """A non-idempotent filter (TG): every application bumps a counter, so applying it
    twice - or not at all - is visible inside run()."""
    out = dict(context)
    out['applied'] = context.get('applied', 0) + 1
    out['mine'] = f'for-{self.label}'
    return out


def _filter_faulty(self, context):
    """TX: the task's own filter_context fails (user code of the task that runs before run())."""
    if WORLD.fault_exc == 'filter' and self.label in WORLD.faults:
        WORLD.rec('filter-raise', tkey(self))
        raise KeyError(f'filter:{self.label}')
    return context


def _post_init(self):
    object.__setattr__(self, 'derived', ('derived', self.label))
    # the documented use of post_init: helpers derived from the parameters, which need not be
    # picklable themselves (a closure, a lock)
    object.__setattr__(self, 'helper', lambda: ('derived', self.label))
    object.__setattr__(self, 'guard', threading.Lock())


class JsonCache(BaseCache):
    """A second BaseCache subclass (another cache format sharing a storage)."""
    KEY_PREFIX = 'json__'
    RESULT_FILENAME = 'data.json'

    def save_result(self, storage, task, result):
        with storage.file_handle(task.cache_key, self.RESULT_FILENAME, mode='w') as f:
            json.dump(_to_json(result), f)

    def load_result(self, storage, task):
        with storage.file_handle(task.cache_key, self.RESULT_FILENAME, mode='r') as f:
            return _from_json(json.load(f))


def _to_json(v):
    if isinstance(v, tuple):
        return {'t': [_to_json(x) for x in v]}
    if isinstance(v, list):
        return {'l': [_to_json(x) for x in v]}
    if isinstance(v, dict):
        return {'d': {k: _to_json(x) for k, x in v.items()}}
    return v


def _from_json(v):
    if isinstance(v, dict):
        if 't' in v:
            return tuple(_from_json(x) for x in v['t'])
        if 'l' in v:
            return [_from_json(x) for x in v['l']]
        return {k: _from_json(x) for k, x in v['d'].items()}
    return v


class _FilterMixin:
    """filter_context inherited from a mixin, not defined in the task class body (TH)."""

    def filter_context(self, context):
        return _filter_even(self, context)


def _mk(name: str, *, extra=None, bases=(), **opts):
    ns: dict[str, Any] = {
        '__annotations__': {'label': int, **{f: Any for f in FIELDS}},
        **{f: None for f in FIELDS},
        'run': _run,
        '__module__': __name__,
        '__qualname__': name,
    }
    ns.update(extra or {})
    cls = type(name, bases, ns)
    return labtech.task(**opts)(cls)


TA = _mk('TA')                          # unlimited, PickleCache
TB = _mk('TB', max_parallel=1)
TC = _mk('TC', max_parallel=2)
TD = _mk('TD', max_parallel=3)
TN = _mk('TN', cache=None)              # never cached
TM = _mk('TM', cache=None, max_parallel=1)
TF = _mk('TF', extra={'filter_context': _filter_even})
TP = _mk('TP', extra={'post_init': _post_init})
TG = _mk('TG', extra={'filter_context': _filter_counting})
TX = _mk('TX', extra={'filter_context': _filter_faulty})
TH = _mk('TH', bases=(_FilterMixin,))
TJ = _mk('TJ', cache=JsonCache())
T2 = _mk('T2', cache=labtech.cache.PickleCache(pickle_protocol=2))

TK = _mk('TK', cache=None, max_parallel=2)     # never cached *and* limited
TFN = _mk('TFN', cache=None, extra={'filter_context': _filter_even})    # never cached, per-parameter context filter
_SHARED_CACHE = labtech.cache.PickleCache()
TC1 = _mk('TC1', max_parallel=2, cache=_SHARED_CACHE)   # two unrelated types with identical decorator
TC2 = _mk('TC2', max_parallel=2, cache=_SHARED_CACHE)   # arguments (the very same cache object)


def _mk_single_call(name: str, **opts):
    """The documented single-call spelling labtech.task(cls, **options)."""
    ns: dict[str, Any] = {
        '__annotations__': {'label': int, **{f: Any for f in FIELDS}},
        **{f: None for f in FIELDS},
        'run': _run,
        '__module__': __name__,
        '__qualname__': name,
    }
    return labtech.task(type(name, (), ns), **opts)


try:
    TL = _mk_single_call('TL', max_parallel=1)
except TypeError:            # a labtech.task() that does not accept this spelling
    TL = _mk('TL', max_parallel=1)

# A task type derived from another task type (TB, declared with max_parallel=1): it adds a parameter
# of its own - where its dependencies are put - and is decorated WITHOUT max_parallel, i.e. declared
# unlimited; everything else is inherited.
TS = labtech.task(type('TS', (TB,), {'__annotations__': {'ext': Any}, 'ext': None, '__module__': __name__, '__qualname__': 'TS',
                                     'EXTRA_FIELDS': ('ext',)}))

TW = _mk('TW', mlflow_run=True)         # every execution is wrapped in an mlflow run
TZ = _mk('TZ')                          # a task whose result is None
TE = _mk('TE')                          # a task whose result is an exception object (returned, not raised)

TYPES = {c.__name__: c for c in (TA, TB, TC, TD, TN, TM, TF, TP, TJ, T2, TG, TX, TH, TK, TC1, TC2, TL, TFN, TS, TW, TZ, TE)}
# the limits and cacheability the *declarations above* ask for - never read back from labtech
MAX_PARALLEL = {'TA': None, 'TB': 1, 'TC': 2, 'TD': 3, 'TN': None, 'TM': 1, 'TF': None, 'TP': None, 'TJ': None, 'T2': None,
                'TG': None, 'TX': None, 'TH': None, 'TK': 2, 'TC1': 2, 'TC2': 2, 'TL': 1, 'TFN': None, 'TS': None, 'TW': None, 'TZ': None, 'TE': None}
CACHEABLE = {n: n not in ('TN', 'TM', 'TK', 'TFN') for n in TYPES}
