"""CLI: python -m verif_lt.check <ID> [--tier quick|thorough] [--replay file]"""
from __future__ import annotations

import argparse
import importlib
import json
import os
import sys
import time
import traceback

from .common import HarnessError, report


def normalise_signals():
    """The verdict must not depend on how the check was launched: a background job of a
    non-interactive shell inherits SIGINT (and possibly others) as ignored, or a blocked signal
    mask; ignored dispositions survive exec, so real labtech runs started by the checker would
    never see Ctrl-C / terminate().  Establish what an interactive caller has."""
    import signal
    try:
        signal.signal(signal.SIGINT, signal.default_int_handler)
        for s in (signal.SIGTERM, signal.SIGCHLD, signal.SIGHUP, signal.SIGQUIT, signal.SIGUSR1, signal.SIGUSR2, signal.SIGALRM):
            signal.signal(s, signal.SIG_DFL)
        signal.pthread_sigmask(signal.SIG_SETMASK, set())
    except (ValueError, OSError):
        pass


def main(argv=None) -> int:
    normalise_signals()
    ap = argparse.ArgumentParser()
    ap.add_argument('prop')
    ap.add_argument('--tier', default=os.environ.get('VERIF_TIER') or 'quick', choices=['quick', 'thorough'])
    ap.add_argument('--replay', default=None)
    args = ap.parse_args(argv)
    prop = args.prop.upper()
    try:
        seed = int(os.environ.get('VERIF_SEED', '0') or 0)
    except ValueError:
        seed = 0
    try:
        import labtech  # noqa: F401
    except BaseException:
        # A tree that cannot even be imported is not a property verdict.
        print('HARNESS-ERROR: cannot import labtech from', os.environ.get('LABTECH_SRC'))
        traceback.print_exc()
        return 2
    try:
        mod = importlib.import_module(f'verif_lt.props.{prop.lower()}')
    except ModuleNotFoundError:
        print(f'HARNESS-ERROR: no check for {prop}')
        return 2
    t0 = time.time()
    try:
        if args.replay:
            doc = json.loads(open(args.replay).read())
            return int(mod.replay(doc['replay']))
        result = mod.run(args.tier, seed)
    except HarnessError as e:
        print(f'HARNESS-ERROR: {e}')
        return 2
    except BaseException:
        print('HARNESS-ERROR: exception in the checker')
        traceback.print_exc()
        return 2
    return report(result, args.tier, seed, time.time() - t0)


if __name__ == '__main__':
    sys.stdout.reconfigure(line_buffering=True)
    sys.exit(main())
