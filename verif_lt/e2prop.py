"""Generic driver for the properties decided on the coordinator seam (E2 +
real-SerialRunner spy slice + trace conformance)."""
from __future__ import annotations

from typing import Iterable, Optional, Sequence

from . import e2
from .common import HarnessError, Result, Violation, pmap, rotate, silence_labtech
from .spy import conformance_trace, run_once_serial


def _work(item):
    # A harness error in one slice (for instance a non-deterministic replay caused by state that
    # the code under test carries across executions) must not hide what the other slices find:
    # it is returned, and only turns the whole check into a harness error if nothing else reports.
    try:
        return _work_inner(item)
    except HarnessError as e:
        return ('harness-error', [f'{item[0]} slice: {e}'])


def _work_inner(item):
    kind = item[0]
    silence_labtech()
    if kind == 'e2':
        _, cfgs, props, max_exec = item
        outs = [e2.explore_config((c, props, max_exec)) for c in cfgs]
        return ('e2', outs)
    if kind == 'e3':
        from . import e3
        _, cfgs, props, max_exec, max_dev = item
        outs = [e3.explore_config_e3((c, props, max_exec, max_dev)) for c in cfgs]
        return ('e3', outs)
    if kind == 'barrier':
        from . import e4b
        return ('barrier', [dict(e4b.barrier_case(item[1]), case=[str(x) for x in item[1][1:4]])])
    if kind == 'hash':
        from . import hashseed
        _, prop_, fam, seed_ = item
        return ('hash', [dict(hashseed.run_slice(prop_, fam, seed_), fam=fam, seed=seed_)])
    if kind == 'real':
        from . import e4
        _, cases, props = item
        return ('real', [e4.real_case((cfg, be, mw, props)) | {'cfg': cfg.brief(), 'backend': be, 'mw': mw} for cfg, be, mw in cases])
    if kind == 'serial':
        _, cfgs, props = item
        outs = []
        for cfg in cfgs:
            obs = run_once_serial(cfg)
            viols = []
            for p in props:
                for key, msg in e2.ORACLES[p](obs):
                    viols.append(Violation(prop=p, key=f'serial:{key}', what=f'[real SerialRunner] {msg} | cfg={cfg.brief()}',
                                           replay={'engine': 'serial', 'cfg': cfg.to_json(), 'prop': p, 'clause': key},
                                           size=cfg.spec.n * 100))
            if not viols and cfg.spec.n > 1:
                # the very same task objects after an earlier complete run
                obs3 = run_once_serial(cfg, warm_objects=True)
                for p in props:
                    for key, msg in e2.ORACLES[p](obs3):
                        viols.append(Violation(prop=p, key=f'serial:reused-task-objects:{key}',
                                               what=f'[real SerialRunner, task objects that already went through an earlier run_tasks call] {msg} | cfg={cfg.brief()}',
                                               replay={'engine': 'serial', 'cfg': cfg.to_json(), 'prop': p, 'clause': key, 'warm': True},
                                               size=cfg.spec.n * 100 + 60))
            if not viols and cfg.spec.n > 1:
                # the same configuration from a non-initial state (an earlier aborted run in this process)
                obs2 = run_once_serial(cfg, prelude=True)
                for p in props:
                    for key, msg in e2.ORACLES[p](obs2):
                        viols.append(Violation(prop=p, key=f'serial:after-earlier-run:{key}',
                                               what=f'[real SerialRunner, after an earlier aborted run_tasks call in the same process] {msg} | cfg={cfg.brief()}',
                                               replay={'engine': 'serial', 'cfg': cfg.to_json(), 'prop': p, 'clause': key, 'prelude': True},
                                               size=cfg.spec.n * 100 + 50))
            rej = None
            if not viols:
                rej = conformance_trace(obs)
            outs.append({'viols': viols, 'rejected': rej, 'cfg': cfg.brief(),
                         'trace': [ev[:3] for ev in obs.events if ev[0] in ('submit', 'yield')]})
        return ('serial', outs)
    raise HarnessError(kind)


def chunks(seq: list, size: int):
    for i in range(0, len(seq), size):
        yield seq[i:i + size]


def _guarded(gen, viols, harness_errors):
    """Yields from the parallel map; if the machinery itself breaks down (a checker worker killed, for
    instance by a tree whose real-backend runs fork without end) after violations have already been
    found, the verdict stands and the breakdown is recorded as a note instead of replacing it."""
    try:
        yield from gen
    except HarnessError as e:
        if not viols:
            raise
        harness_errors.append(f'exploration ended early: {e}')


def run_e2_property(prop: str, tier: str, seed: int, configs: Iterable, *, serial_configs: Iterable = (),
                    e3_configs: Iterable = (), e3_max_exec: Optional[int] = 20000, e3_max_dev: Optional[int] = None,
                    real_cases: Iterable = (), hash_slices: Iterable = (), barrier_cases: Iterable = (),
                    props: Optional[Sequence[str]] = None, max_exec_per_cfg: Optional[int] = None,
                    rule: str = '', assumptions: Sequence[str] = (), chunk: int = 40,
                    extra_cov: Optional[dict] = None) -> Result:
    props = list(props or [prop])
    configs = rotate(list(configs), seed)
    serial_configs = rotate(list(serial_configs), seed)
    items = [('e2', c, props, max_exec_per_cfg) for c in chunks(configs, chunk)]
    items += [('serial', c, props) for c in chunks(serial_configs, chunk)]
    e3_configs = rotate(list(e3_configs), seed)
    # E3 configurations differ a lot in cost: small chunks, biggest DAGs first
    e3_sorted = sorted(e3_configs, key=lambda c: (-c.spec.n, -(c.max_workers or 9)))
    items = [('e3', c, props, e3_max_exec, e3_max_dev) for c in chunks(e3_sorted, 6)] + items
    e3_exec = e3_cfgs = 0
    real_cases = list(real_cases)
    items = [('real', real_cases[i:i + 2], props) for i in range(0, len(real_cases), 2)] + items
    real_runs = real_validated = real_maxc = 0
    items = [('hash', prop, fam, sd) for fam, sd in hash_slices] + items
    hash_exec = 0
    hash_done = []
    items = [('barrier', c) for c in barrier_cases] + items
    barrier_runs = barrier_rests = barrier_max = 0
    executions = states = transitions = 0
    n_cfg = 0
    capped = 0
    multi_outcome_cfgs = 0
    max_depth = 0
    viol_execs = 0
    serial_runs = validated = 0
    rejected = []
    viols: list[Violation] = []
    samples = []
    busiest = None
    harness_errors = []
    import os as _os
    import time as _time
    t_start = _time.time()
    stop_after = float(_os.environ.get('VERIF_STOP_AFTER_VIOLATION', '420') or 420)
    stopped_early = False
    results = _guarded(pmap(_work, items), viols, harness_errors)
    for kind, outs in results:
        if viols and _time.time() - t_start > stop_after:
            # the verdict is already "violated"; a tree on which the code under test spins in every
            # configuration would otherwise keep the check busy for hours
            stopped_early = True
            results.close()
            break
        if kind == 'harness-error':
            harness_errors.extend(outs)
            continue
        if kind in ('e2', 'e3'):
            for o in outs:
                n_cfg += 1
                if kind == 'e3':
                    e3_exec += o['executions']
                    e3_cfgs += 1
                executions += o['executions']
                states += o['states']
                transitions += o['transitions']
                capped += 1 if o['capped'] else 0
                multi_outcome_cfgs += 1 if o['outcomes'] > 1 else 0
                max_depth = max(max_depth, o['max_depth'])
                viol_execs += o['viol_execs']
                viols.extend(v for v in o['viols'] if v.prop == prop)
                if busiest is None or o['executions'] > busiest['executions']:
                    busiest = {'cfg': o['cfg'], 'executions': o['executions'], 'states': o['states']}
                if len(samples) < 4 and o['executions'] > 1:
                    samples.append({'cfg': o['cfg'], 'schedules_explored': o['executions'], 'states': o['states']})
        elif kind == 'barrier':
            for o in outs:
                barrier_runs += 1
                barrier_rests += o['rest_points']
                barrier_max = max(barrier_max, o['max_inside'])
                for p, key, msg in o['viols']:
                    if p == prop:
                        viols.append(Violation(prop=p, key=key, what=msg, replay={'engine': 'barrier', 'case': o['case']}, size=700))
                if barrier_runs <= 1:
                    samples.append({'real_barrier_run': o['case'], 'release_order': o['released'], 'max_tasks_inside_run': o['max_inside']})
        elif kind == 'hash':
            for o in outs:
                hash_exec += o['executions']
                hash_done.append({'family': o['fam'], 'PYTHONHASHSEED': o['seed'], 'executions': o['executions'], 'configurations': o['configs']})
                for key, msg, rp in o['viols']:
                    viols.append(Violation(prop=prop, key=f'hashseed:{key}', what=f'[fresh interpreter, PYTHONHASHSEED={o["seed"]}, string-salted tasks] {msg}',
                                           replay=dict(rp, hashseed=o['seed']), size=900))
        elif kind == 'real':
            for o in outs:
                real_runs += 1
                real_maxc = max(real_maxc, o.get('max_conc', 0))
                for p, key, msg in o['viols']:
                    if p == prop:
                        viols.append(Violation(prop=p, key=key, what=msg, replay={'engine': 'real', 'cfg': o['cfg'], 'backend': o['backend'], 'mw': o['mw']}, size=500))
                if o.get('validated'):
                    real_validated += 1
                elif o.get('rejected') and not o['viols']:
                    rejected.append((o['cfg'], f"[real {o['backend']}] {o['rejected']}"))
                if real_runs <= 2:
                    samples.append({'real_process_backend_trace': o.get('trace'), 'backend': o['backend'], 'max_workers': o['mw']})
        else:
            for o in outs:
                serial_runs += 1
                viols.extend(v for v in o['viols'] if v.prop == prop)
                if o['rejected'] is None and not o['viols']:
                    validated += 1
                elif o['rejected'] is not None:
                    rejected.append((o['cfg'], o['rejected']))
                if serial_runs <= 2:
                    samples.append({'real_serial_trace': o['trace'], 'cfg': o['cfg']})
    if harness_errors and not viols:
        raise HarnessError(f'{len(harness_errors)} slices failed inside the machinery, e.g. {harness_errors[0][:1500]}')
    if rejected and not viols:
        raise HarnessError(f'{len(rejected)} real runner traces rejected by SchedRunner replay although '
                           f'all oracles are silent, e.g. {rejected[0]}')
    if busiest:
        samples.append({'largest_configuration': busiest})
    cov = {
        'states': states,
        'transitions': transitions,
        'traces_validated_against_impl': validated + real_validated,
        'real_barrier_runs': barrier_runs,
        'real_rest_points_observed': barrier_rests,
        'real_max_tasks_inside_run': barrier_max,
        'hash_seed_slices': hash_done,
        'executions_in_other_hash_seeds': hash_exec,
        'real_fork_spawn_runs': real_runs,
        'real_fork_spawn_traces_accepted_by_model': real_validated,
        'real_max_concurrency_observed': real_maxc,
        'samples': samples,
        'evaluations': executions + serial_runs + hash_exec + real_runs + barrier_runs,
        'distinct_nontrivial': n_cfg,
        'rule': rule or 'one evaluation = one complete run_tasks execution under one choice sequence; '
                        'distinct_nontrivial = distinct configurations (DAG x request x pre-cache x faults) explored',
        'configurations': n_cfg,
        'executions_e2': executions,
        'real_serial_runs': serial_runs,
        'executions_e3_real_process_runner_over_virtual_os': e3_exec,
        'configurations_e3': e3_cfgs,
        'configs_with_several_outcomes': multi_outcome_cfgs,
        'max_choice_depth': max_depth,
        'capped_configurations': capped,
        'exhaustive': capped == 0 and not stopped_early,
        'violating_executions': viol_execs,
    }
    if extra_cov:
        cov.update(extra_cov)
    res = Result(prop=prop, level='model_checking', coverage=cov, assumptions=list(assumptions), violations=viols)
    for he in harness_errors[:3]:
        res.notes.append(f'harness error in a slice (violations above come from the other slices): {he[:300]}')
    if stopped_early:
        res.notes.append(f'stopped after {stop_after:.0f} s with violations already found: the remaining slices were not explored')
    if capped:
        res.notes.append(f'{capped} configurations hit the per-configuration execution cap {max_exec_per_cfg}')
    return res


def replay(payload: dict) -> int:
    silence_labtech()
    if payload.get('engine') == 'serial':
        cfg = e2.Config.from_json(payload['cfg'])
        obs = run_once_serial(cfg, prelude=bool(payload.get('prelude')), warm_objects=bool(payload.get('warm')))
        found = e2.ORACLES[payload['prop']](obs)
        print('config:', cfg.brief())
        for ev in obs.events:
            print('  ', ev)
        print('outcome:', obs.outcome[0], repr(obs.outcome[1])[:300])
        for k, m in found:
            print(f"  {payload['prop']}:{k}: {m}")
        return 1 if found else 0
    if payload.get('engine') == 'e3':
        from . import e3
        return e3.replay(payload)
    return e2.replay(payload)
