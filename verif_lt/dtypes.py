"""Task / enum universe for the value-level properties (C06 C07 C08 C09 C15).

A sibling module dtypes_b defines types with the *same qualified names*.
"""
from __future__ import annotations

from enum import Enum
from typing import Any

import labtech

from .universe import JsonCache, WORLD
from .paramtree import canon, find_tasks


class Color(Enum):
    RED = 1
    GREEN = 2


class Shade(Enum):          # another enum class with identically named members
    RED = 1
    GREEN = 2


class StrEnumLike(str, Enum):
    RED = 'RED'


import enum as _enum  # noqa: E402


class Perm(_enum.Flag):             # flag enums: combinations of members are values of the enum type too
    R = 1
    W = 2
    X = 4
    RW = 3                          # a named combination


class IPerm(_enum.IntFlag):
    A = 1
    B = 2


def _run(self):
    WORLD.rec('start', (type(self).__module__, type(self).__qualname__, self.cache_key))
    deps = []
    for d in find_tasks([getattr(self, f) for f in self.__dataclass_fields__]):
        deps.append(d.result)
    return ('R', type(self).__module__, type(self).__qualname__, canon(self), tuple(deps), WORLD.epoch)


def _post_init(self):
    object.__setattr__(self, 'derived', ('derived', canon(self.p)))
    # a post_init may also use what labtech itself has derived for the task by then
    object.__setattr__(self, 'derived_key', getattr(self, 'cache_key', '<no cache_key yet>'))
    object.__setattr__(self, 'derived_is_task', labtech.is_task(self))
    # derived helpers need not be picklable themselves: they are derived again wherever the task goes
    object.__setattr__(self, 'helper', lambda: self.derived)


def _mk(name, module, *, fields=('p',), extra=None, bases=(), annotations=None, **opts):
    ns = {
        '__annotations__': {**{f: Any for f in fields}, **(annotations or {})},
        **{f: None for f in fields[1:]},
        'run': _run,
        '__module__': module,
        '__qualname__': name,
    }
    ns.update(extra or {})
    return labtech.task(**opts)(type(name, tuple(bases), ns))


Foo = _mk('Foo', __name__, fields=('p', 'q'))
FooBar = _mk('FooBar', __name__, fields=('p', 'q'))     # Foo is a prefix of FooBar
Foo_ = _mk('Foo_', __name__, fields=('p', 'q'))
Leaf = _mk('Leaf', __name__, fields=('v',))
NoCacheT = _mk('NoCacheT', __name__, cache=None)
JFoo = _mk('JFoo', __name__, cache=JsonCache())         # second cache format
PFoo = _mk('PFoo', __name__, extra={'post_init': _post_init})
P2 = _mk('P2', __name__, cache=labtech.cache.PickleCache(pickle_protocol=2))


class SubPickle(labtech.cache.PickleCache):
    """A cache format derived from PickleCache that keeps the inherited key prefix but stores the
    result differently (another file, another encoding)."""
    RESULT_FILENAME = 'data.subpickle'

    def save_result(self, storage, task, result):
        import pickle
        with storage.file_handle(task.cache_key, self.RESULT_FILENAME, mode='wb') as f:
            f.write(b'SUB' + pickle.dumps(result))

    def load_result(self, storage, task):
        import pickle
        with storage.file_handle(task.cache_key, self.RESULT_FILENAME, mode='rb') as f:
            data = f.read()
        if not data.startswith(b'SUB'):
            raise ValueError('not a SubPickle entry')
        return pickle.loads(data[3:])


SFoo = _mk('SFoo', __name__, cache=SubPickle())
DFoo = _mk('DFoo', __name__, fields=('p', 'q'), extra={'q': 100})     # a parameter whose default is not None

# a task type derived from another task type that adds a parameter of its own (p and q are inherited)
SubFoo = _mk('SubFoo', __name__, fields=(), annotations={'r': Any}, extra={'r': 0}, bases=(Foo,))


def _normalising_post_init(self):
    # the documented post_init hook used to bring a parameter into a canonical form
    if isinstance(self.p, str):
        object.__setattr__(self, 'p', self.p.strip().lower())


NFoo = _mk('NFoo', __name__, cache=None, extra={'post_init': _normalising_post_init})

# class-level attributes that are not parameters (typing.ClassVar): a registry of an unsupported
# type, a mutable list, a reference task
import typing as _typing  # noqa: E402
CVFoo = _mk('CVFoo', __name__, annotations={'REGISTRY': _typing.ClassVar[set], 'GRID': _typing.ClassVar[list], 'BASELINE': _typing.ClassVar[Any]},
            extra={'REGISTRY': {1, 2}, 'GRID': [1, 2], 'BASELINE': Leaf(v='baseline')})

# two task types, one's name a prefix of the other's, configured with the very same cache object
_SHARED_FIT_CACHE = labtech.cache.PickleCache(pickle_protocol=4)
ShFit = _mk('ShFit', __name__, cache=_SHARED_FIT_CACHE)
ShFitAll = _mk('ShFitAll', __name__, cache=_SHARED_FIT_CACHE)

# type names that contain the separator labtech puts between the parts of a key, or end with it
Fit__v2 = _mk('Fit__v2', __name__, fields=('p', 'q'))
Fit_ = _mk('Fit_', __name__, fields=('p', 'q'))


class PlainCache(labtech.cache.BaseCache):
    """A cache format that keeps BaseCache's (empty) key prefix."""
    RESULT_FILENAME = 'plain.pickle'

    def save_result(self, storage, task, result):
        import pickle
        with storage.file_handle(task.cache_key, self.RESULT_FILENAME, mode='wb') as f:
            pickle.dump(result, f)

    def load_result(self, storage, task):
        import pickle
        with storage.file_handle(task.cache_key, self.RESULT_FILENAME, mode='rb') as f:
            return pickle.load(f)


class OddPrefixCache(PlainCache):
    KEY_PREFIX = 'a__b_'


EFoo = _mk('EFoo', __name__, fields=('p', 'q'), cache=PlainCache())
ABFoo = _mk('ABFoo', __name__, fields=('p', 'q'), cache=OddPrefixCache())

# module-level types whose names are legal non-ASCII identifiers (every key of such a type must be usable)
Modèle = _mk('Modèle', __name__, fields=('p', 'q'))
Эксперимент = _mk('Эксперимент', __name__, fields=('p', 'q'))

ALL = (Foo, FooBar, Foo_, Leaf, NoCacheT, JFoo, PFoo, P2, Modèle, Эксперимент, SFoo, DFoo)


def _shape_payload(kind: str, n: int):
    if kind == 'scalar':
        return n
    if kind == 'none':
        return None
    if kind == 'nested':
        return {'a': [1, (2, 3.5)], 'b': {'c': None, 'd': {'e': (n, 'é')}}, 'set': frozenset({1, n})}
    if kind == 'large':
        return [bytes([i % 251]) * 1024 for i in range(n)]      # n KiB in n chunks: multi-frame pickle
    if kind == 'enum':
        return [Color.RED, Shade.GREEN]
    raise ValueError(kind)


def _shape_run(self):
    WORLD.rec('start', (type(self).__module__, type(self).__qualname__, self.cache_key))
    return ('R', type(self).__module__, type(self).__qualname__, canon(self), _shape_payload(self.kind, self.n), WORLD.epoch)


Shape = _mk('Shape', __name__, fields=('kind', 'n'), extra={'run': _shape_run})


def _flip_run(self):
    """A task whose result changes from one execution to the next (its inputs live outside its
    parameters): a big value first, then None, then a small value.  Executions are counted in a file
    next to the world file, so the count survives process boundaries."""
    import os
    WORLD.rec('start', (type(self).__module__, type(self).__qualname__, self.cache_key))
    path = (os.environ.get('VERIF_WORLD_FILE') or os.path.join(os.environ.get('TMPDIR', '/tmp'), f'flip_{os.getpid()}')) + '.flip_' + self.cache_key
    try:
        n = int(open(path).read() or 0)
    except (OSError, ValueError):
        n = 0
    with open(path, 'w') as f:
        f.write(str(n + 1))
    seq = {'none-second': [('first', self.p, ['x' * 50] * 40), None, ('third', self.p)],
           'none-first': [None, ('second', self.p, ['y' * 50] * 40), None],
           'falsy': [('first', self.p), 0, '']}[self.kind]
    return seq[min(n, 2)]


Flip = _mk('Flip', __name__, fields=('kind', 'p'), extra={'run': _flip_run})
JFlip = _mk('JFlip', __name__, fields=('kind', 'p'), extra={'run': _flip_run}, cache=JsonCache())


class Unpicklable:
    def __reduce__(self):
        raise TypeError('this object refuses to be pickled')


def _result_payload(kind: str, n: int, epoch: int = 0):
    """Result shapes for the save-path properties (C12 / C13).  Large results differ between epochs in
    content *and* length everywhere, so that an overwrite that mixes an old and a new result is visible."""
    e = (epoch or 0) % 7
    if kind == 'small':
        return ('small', n)
    if kind == 'multi':                     # > 64 KiB frames under pickle protocol 4/5, JSON-able
        return ['%04d' % i + 'xyzuvwt'[e] * (1020 - 3 * e) for i in range(n + e)]
    if kind == 'blob':                      # one large bytes object: the pickler writes its header and its
        return bytes((b + e) % 256 for b in range(256)) * (4 * n + e)  # payload (n KiB) with separate write() calls, outside any frame
    if kind == 'unpicklable0':              # fails before anything is written
        return Unpicklable()
    if kind == 'unpicklable1':              # fails after one small frame
        return ['a' * 100, Unpicklable()]
    if kind == 'unpicklable-deep':          # fails after many frames have gone to the file
        return ['%04d' % i + 'y' * 1020 for i in range(n)] + [Unpicklable()]
    raise ValueError(kind)


def _saver_run(self):
    WORLD.rec('start', (type(self).__module__, type(self).__qualname__, self.cache_key))
    return ('R', type(self).__qualname__, self.kind, self.n, WORLD.epoch, _result_payload(self.kind, self.n, WORLD.epoch))


Saver = _mk('Saver', __name__, fields=('kind', 'n'), extra={'run': _saver_run})
JSaver = _mk('JSaver', __name__, fields=('kind', 'n'), extra={'run': _saver_run}, cache=JsonCache())
class RenamedMetaCache(JsonCache):
    """A cache format that keeps its metadata under another file name."""
    KEY_PREFIX = 'json2__'
    METADATA_FILENAME = 'entry.meta.json'


MSaver = _mk('MSaver', __name__, fields=('kind', 'n'), extra={'run': _saver_run}, cache=RenamedMetaCache())


class TwoFileCache(JsonCache):
    """A cache format that keeps one result in MORE THAN ONE file (head: everything but the payload;
    payload), following the documented save_result / load_result contract: an overwrite that is
    stopped between the two files leaves a mixture of a new and an old result on disk."""
    KEY_PREFIX = 'two__'
    HEAD_FILENAME = 'head.json'
    PAYLOAD_FILENAME = 'payload.json'

    def save_result(self, storage, task, result):
        import json
        from .universe import _to_json
        with storage.file_handle(task.cache_key, self.HEAD_FILENAME, mode='w') as f:
            json.dump(_to_json(result[:5]), f)
        with storage.file_handle(task.cache_key, self.PAYLOAD_FILENAME, mode='w') as f:
            json.dump(_to_json(result[5:]), f)

    def load_result(self, storage, task):
        import json
        from .universe import _from_json
        with storage.file_handle(task.cache_key, self.HEAD_FILENAME, mode='r') as f:
            head = _from_json(json.load(f))
        with storage.file_handle(task.cache_key, self.PAYLOAD_FILENAME, mode='r') as f:
            return head + _from_json(json.load(f))


TSaver = _mk('TSaver', __name__, fields=('kind', 'n'), extra={'run': _saver_run}, cache=TwoFileCache())
USaver = _mk('USaver', __name__, fields=('kind', 'n', 'name'), extra={'run': _saver_run, 'name': 'é日本語-ü€'})     # a non-ASCII parameter value


def _ksaver_run(self):
    """Like Saver, but when the Lab context carries 'kill_at' = k the worker process kills itself
    (SIGKILL) at the k-th line of cache.py / storage.py executed afterwards, i.e. during the save
    of this very result.  Only meaningful under a process backend."""
    WORLD.rec('start', (type(self).__module__, type(self).__qualname__, self.cache_key))
    k = (self.context or {}).get('kill_at')
    if k:
        import os
        import signal
        from .faults import LineInjector, in_files

        def die():
            os.kill(os.getpid(), signal.SIGKILL)
            return RuntimeError('unreachable')
        inj = LineInjector(in_files('cache.py', 'storage.py'), at=k, exc_factory=die)
        inj.__enter__()
    epoch = (self.context or {}).get('epoch', WORLD.epoch)
    return ('R', 'Saver', self.kind, self.n, epoch, _result_payload(self.kind, self.n, epoch))


KSaver = _mk('KSaver', __name__, fields=('kind', 'n'), extra={'run': _ksaver_run})


def _empty_run(self):
    WORLD.rec('start', (type(self).__module__, type(self).__qualname__, self.cache_key))
    return ('R', 'Empty', WORLD.epoch)


Empty = labtech.task(type('Empty', (), {'__annotations__': {}, 'run': _empty_run, '__module__': __name__, '__qualname__': 'Empty'}))
HoldsEmpty = _mk('HoldsEmpty', __name__)      # a task holding a parameterless task
