"""E1 - stateless choice-tree explorer.

A harness is a function run(chooser) -> observation.  Every point where the
environment decides something calls chooser.choose(n, tag) and gets an int in
range(n).  The explorer re-executes the harness once per choice sequence until
the tree is exhausted (depth-first, alternatives simplest-first).  Choice 0 is
the default environment answer; every other choice costs one deviation.
"""
from __future__ import annotations

from dataclasses import dataclass, field
from typing import Any, Callable, Optional

from .common import HarnessError


class Chooser:
    __slots__ = ('prefix', 'expect', 'trace', 'fps', 'labels')

    def __init__(self, prefix=(), expect=None):
        self.prefix = list(prefix)
        self.expect = expect          # [(n, tag)] recorded by the parent execution
        self.trace: list[tuple[int, int, Any]] = []   # (choice, n, tag)
        self.fps: list[Any] = []      # state fingerprint at each choice point
        self.labels: list[Any] = []

    def choose(self, n: int, tag: Any = None, fp: Any = None, label_of: Optional[Callable[[int], Any]] = None) -> int:
        if n <= 0:
            raise HarnessError(f'choose() with n={n} at {tag}')
        i = len(self.trace)
        if i < len(self.prefix):
            c = self.prefix[i]
            if self.expect is not None and i < len(self.expect):
                en, etag = self.expect[i]
                if en != n or etag != tag:
                    raise HarnessError(
                        f'non-deterministic replay at choice {i}: expected (n={en}, tag={etag!r}) got (n={n}, tag={tag!r})')
            if c >= n:
                raise HarnessError(f'choice {c} out of range {n} at point {i} tag={tag!r}')
        else:
            c = 0
        self.trace.append((c, n, tag))
        self.fps.append(fp)
        self.labels.append(label_of(c) if label_of else c)
        return c

    @property
    def choices(self) -> list[int]:
        return [c for c, _, _ in self.trace]

    def deviations(self) -> int:
        return sum(1 for c, _, _ in self.trace if c != 0)


@dataclass
class ExploreStats:
    executions: int = 0
    choice_points: int = 0
    max_depth: int = 0
    states: set = field(default_factory=set)
    transitions: set = field(default_factory=set)
    outcomes: dict = field(default_factory=dict)   # outcome fingerprint -> count
    capped: bool = False
    bound_completed: Optional[int] = None

    def summary(self) -> dict:
        return {
            'executions': self.executions,
            'choice_points': self.choice_points,
            'max_depth': self.max_depth,
            'states': len(self.states),
            'transitions': len(self.transitions),
            'distinct_outcomes': len(self.outcomes),
            'capped': self.capped,
        }


def explore(run: Callable[[Chooser], Any], on_exec: Callable[[Chooser, Any], None], *,
            max_deviations: Optional[int] = None, max_executions: Optional[int] = None,
            stats: Optional[ExploreStats] = None, state_ns: Any = None,
            outcome_of: Optional[Callable[[Any], Any]] = None,
            stop_when: Optional[Callable[[], bool]] = None) -> ExploreStats:
    """Exhaust the choice tree of `run`.  `on_exec(chooser, observation)` is
    called for every complete execution (that is where oracles run)."""
    stats = stats or ExploreStats()
    stack: list[tuple[list[int], Optional[list]]] = [([], None)]
    while stack:
        prefix, expect = stack.pop()
        if max_executions is not None and stats.executions >= max_executions:
            stats.capped = True
            break
        if stop_when is not None and stop_when():
            # enough violating executions of this configuration have been seen: the verdict on it is
            # settled, the rest of its tree (which a broken tree can blow up to the cap) is not explored
            stats.capped = True
            break
        ch = Chooser(prefix, expect)
        obs = run(ch)
        if len(ch.trace) < len(prefix):
            raise HarnessError(f'non-deterministic replay: execution ended after {len(ch.trace)} choices, '
                               f'prefix has {len(prefix)}')
        stats.executions += 1
        stats.choice_points += len(ch.trace) - len(prefix) + (1 if prefix else 0)
        stats.max_depth = max(stats.max_depth, len(ch.trace))
        prev = None
        for i, fp in enumerate(ch.fps):
            if fp is None:
                continue
            h = hash((state_ns, fp))
            stats.states.add(h)
            if prev is not None:
                stats.transitions.add(hash((prev[0], prev[1], h)))
            prev = (h, ch.labels[i])
        if prev is not None:
            stats.transitions.add(hash((prev[0], prev[1], 'END')))
        if outcome_of is not None:
            o = outcome_of(obs)
            stats.outcomes[o] = stats.outcomes.get(o, 0) + 1
        on_exec(ch, obs)
        expect_all = [(n, tag) for _, n, tag in ch.trace]
        choices = ch.choices
        devs_before = sum(1 for c in prefix if c != 0)
        # push deeper points first so that DFS pops the shallowest alternative last
        # (simplest-first order of alternatives is preserved within a point)
        new = []
        d = devs_before
        for i in range(len(prefix), len(ch.trace)):
            n = ch.trace[i][1]
            if max_deviations is None or d + 1 <= max_deviations:
                for alt in range(1, n):
                    new.append((choices[:i] + [alt], expect_all[:i + 1]))
            # choices beyond the prefix are all 0 => no extra deviations accumulate
        stack.extend(reversed(new))
    if not stats.capped:
        stats.bound_completed = max_deviations
    return stats
