"""Task types for the diagram property (C20): typed fields and run() signatures."""
from __future__ import annotations

from typing import Any

import labtech


@labtech.task
class GA:
    x: int

    def run(self) -> int:
        return self.x


@labtech.task
class GB:
    one: Any
    many: Any

    def run(self) -> dict:
        return {}


@labtech.task(cache=None)
class GC:
    a: Any
    b: Any

    def run(self):
        return None


@labtech.task(max_parallel=1)
class GD:
    p: Any
    label: str = 'd'

    def run(self) -> list[int]:
        return []


@labtech.task
class GE(GD):
    """A task type that inherits its parameters from another task type and adds one."""
    z: int = 0

    def run(self) -> list[int]:
        return [self.z]


@labtech.task
class GH:
    """A sized task (a dataset with a length): instances with n == 0 are falsy."""
    n: int = 0
    dep: Any = None

    def __len__(self):
        return self.n

    def run(self) -> int:
        return self.n


def _family():
    """Task types made by a helper function; their (postponed) annotations name things that are not
    module globals."""
    class Settings:
        pass

    @labtech.task
    class GL:
        cfg: Settings = None
        dep: GLInner = None

        def run(self):
            return None

    @labtech.task
    class GLInner:
        x: int = 0
        peer: Settings | None = None

        def run(self) -> int:
            return self.x

    return GL, GLInner


GL, GLInner = _family()
GL.__qualname__ = 'GL'
GLInner.__qualname__ = 'GLInner'

def _same_name_pair():
    """Two different task types that share module and qualified name (a class made by a factory for
    each variant, a notebook cell run twice): each is a task type of its own."""
    out = []
    for fields in (('x',), ('y', 'dep')):
        ns = {'__annotations__': {f: 'Any' for f in fields}, **{f: None for f in fields}, 'run': (lambda self: None),
              '__module__': __name__, '__qualname__': 'GV'}
        out.append(labtech.task(type('GV', (), ns)))
    return out


GV1, GV2 = _same_name_pair()

from .gtypes2 import GF, GG  # noqa: E402

FIELDS = {GA: ('x',), GB: ('one', 'many'), GC: ('a', 'b'), GD: ('p', 'label'), GE: ('p', 'label', 'z'),
          GF: ('a', 'b', 'c', 'd', 'dep'), GG: ('b', 'a', 'd', 'c', 'dep'), GH: ('n', 'dep'), GL: ('cfg', 'dep'), GLInner: ('x', 'peer')}
RUN_RETURN = {GA: 'int', GB: 'dict', GC: None, GD: 'list[int]', GE: 'list[int]',
              GF: 'typing.Optional[int]', GG: 'int | None', GH: 'int', GL: None, GLInner: 'int'}
# the annotation of every parameter as written in the class body (what a reader of the diagram expects to see)
FIELD_TYPES = {
    GA: {'x': 'int'}, GB: {'one': 'Any', 'many': 'Any'}, GC: {'a': 'Any', 'b': 'Any'}, GD: {'p': 'Any', 'label': 'str'},
    GE: {'p': 'Any', 'label': 'str', 'z': 'int'},
    GF: {'a': 'typing.Optional[float]', 'b': 'float | None', 'c': 'typing.Union[int, str]', 'd': 'typing.Union[str, int]', 'dep': 'Any'},
    GH: {'n': 'int', 'dep': 'Any'}, GL: {'cfg': 'Settings', 'dep': 'GLInner'}, GLInner: {'x': 'int', 'peer': 'Settings | None'},
    GG: {'a': 'typing.Optional[float]', 'b': 'float | None', 'c': 'typing.Union[int, str]', 'd': 'typing.Union[str, int]', 'dep': 'Any'},
}
