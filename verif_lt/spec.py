"""E5 part 2 - DAG construction specs, small-scope generators and the
reference evaluator (sequential, dependency-first, cache-aware).

A Spec describes a DAG over nodes 0..n-1 where deps[i] is a subset of
range(i).  The reference works on the spec only - never on labtech's own
dependency finder.
"""
from __future__ import annotations

import itertools
import os
from dataclasses import dataclass, field
from datetime import datetime, timedelta
from typing import Any, Iterable, Iterator, Optional, Sequence

from labtech.types import ResultMeta, TaskResult

from . import universe as U

PLACEMENTS = ('direct', 'list', 'tid', 'dil', 'mixed', 'pair', 'nonefirst', 'twice')
STR_SALT = bool(os.environ.get('VERIF_STR_SALT'))


@dataclass(frozen=True)
class Spec:
    deps: tuple            # deps[i] = tuple of earlier node indices
    types: tuple           # type name per node
    place: tuple           # placement per node
    labels: tuple          # label per node (a permutation => varies set orders)
    dup: bool = False      # every reference builds a fresh equal instance

    @property
    def n(self):
        return len(self.deps)

    def sid(self):
        return (self.deps, self.types, self.place, self.labels, self.dup)


def mk_spec(deps, types=None, place=None, labels=None, dup=False) -> Spec:
    n = len(deps)
    return Spec(
        deps=tuple(tuple(d) for d in deps),
        types=tuple(types) if types else ('TA',) * n,
        place=tuple(place) if place else ('direct',) * n,
        labels=tuple(labels) if labels else tuple(range(n)),
        dup=dup,
    )


def all_shapes(n: int) -> Iterator[tuple]:
    """All DAG shapes on n nodes: deps[i] any subset of range(i)."""
    per_node = []
    for i in range(n):
        subsets = []
        for r in range(i + 1):
            subsets.extend(itertools.combinations(range(i), r))
        per_node.append(subsets)
    for combo in itertools.product(*per_node):
        yield tuple(combo)


def nonempty_subsets(items: Sequence) -> Iterator[tuple]:
    for r in range(1, len(items) + 1):
        yield from itertools.combinations(items, r)


def all_subsets(items: Sequence) -> Iterator[tuple]:
    for r in range(0, len(items) + 1):
        yield from itertools.combinations(items, r)


def place_deps(place: str, deps: list, copies: Optional[list] = None) -> dict:
    """Return the constructor kwargs that put `deps` into a task's parameters
    according to the placement scheme."""
    if not deps:
        return {}
    if place == 'twice':   # every dependency is held twice: as two distinct-but-equal instances
        return {'coll': [list(deps), {'again': list(copies if copies is not None else deps)}]}
    if place == 'direct':
        kw = {}
        for i, d in enumerate(deps[:4]):
            kw[f'd{i}'] = d
        if len(deps) > 4:
            kw['coll'] = list(deps[4:])
        return kw
    if place == 'list':
        return {'coll': list(deps)}
    if place == 'tid':     # tuple in dict
        return {'coll': {f'k{i}': (d,) for i, d in enumerate(deps)}}
    if place == 'dil':     # dict in list
        return {'coll': [{'x': d} for d in deps]}
    if place == 'mixed':   # first direct, second in a nested list, rest deep in dict-in-dict
        kw = {'d0': deps[0]}
        rest = deps[1:]
        if rest:
            kw['coll'] = [[rest[0]], {'y': {'z': list(rest[1:])}}]
        return kw
    if place == 'pair':    # heterogeneous sequences that start with a scalar: (weight, task) pairs
        return {'coll': [(0.5 + i, d) for i, d in enumerate(deps)]}
    if place == 'nonefirst':   # a list whose first element is a scalar, and a dict of ('label', task) tuples
        return {'d0': [None] + list(deps[:1]), **({'coll': {'m': ('label', tuple(deps[1:]))}} if deps[1:] else {})}
    raise ValueError(place)


class Built:
    """Task objects built from a spec."""

    def __init__(self, spec: Spec):
        self.spec = spec
        self.canon: list = [None] * spec.n
        for i in range(spec.n):
            self.canon[i] = self._build(i, fresh=False)

    def _build(self, i: int, fresh: bool):
        spec = self.spec
        if spec.dup or fresh:
            deps = [self._build(j, fresh=True) for j in spec.deps[i]]
        else:
            deps = [self.canon[j] for j in spec.deps[i]]
        cls = U.TYPES[spec.types[i]]
        copies = [self._build(j, fresh=True) for j in spec.deps[i]] if spec.place[i] == 'twice' else None
        kw = place_deps(spec.place[i], deps, copies)
        if getattr(cls, 'EXTRA_FIELDS', ()) and deps:
            # a derived type keeps its dependencies in the parameter it added itself
            kw = {cls.EXTRA_FIELDS[0]: kw['coll'] if set(kw) == {'coll'} else list(deps)}
        if STR_SALT and 'd3' not in kw:
            # a string parameter makes hash(task) - and with it every set/dict order inside
            # labtech - depend on PYTHONHASHSEED (hash-seed slices run in fresh interpreters)
            kw['d3'] = f'salt-{spec.labels[i]}'
        return cls(label=spec.labels[i], **kw)

    def fresh(self, i: int):
        return self._build(i, fresh=True)

    def get(self, i: int, mode):
        """mode False: the shared (canonical) object; True: a freshly built equal object; 2: a freshly
        built object that went through pickle (as tasks returned by other tasks or loaded from files do)."""
        if mode == 2:
            import pickle
            return pickle.loads(pickle.dumps(self._build(i, fresh=True)))
        return self._build(i, fresh=True) if mode else self.canon[i]

    def key(self, i: int) -> tuple:
        return (self.spec.types[i], self.spec.labels[i])


def node_of_key(spec: Spec) -> dict:
    return {(spec.types[i], spec.labels[i]): i for i in range(spec.n)}


FIXED_META = ResultMeta(start=datetime(2020, 1, 2, 3, 4, 5, 678901), duration=timedelta(seconds=1, microseconds=250000))


@dataclass
class Ref:
    """What the reference evaluator expects of one run_tasks call."""
    needed: set             # nodes that must be executed or loaded
    executes: set           # subset that executes (not served from cache)
    loads: set              # subset served from cache
    fails: set              # executing nodes that fail (own fault, or read of a failed dependency)
    own_fault: set          # nodes that raise themselves
    value: dict             # node -> value for every needed non-failing node
    unaffected: set         # executing nodes with no failed ancestor (must succeed)


def ctx_view_for(spec: Spec, i: int, context: Optional[dict]):
    if context is None:
        context = {}
    if context.get('_noview'):
        return ()
    if spec.types[i] in ('TF', 'TH', 'TFN'):
        keep = f'k{spec.labels[i] % 2}'
        context = {k: v for k, v in context.items() if k == keep or k.startswith('_')}
    elif spec.types[i] == 'TG':
        context = dict(context, applied=context.get('applied', 0) + 1, mine=f'for-{spec.labels[i]}')
    return tuple(sorted((k, v) for k, v in context.items() if not k.startswith('_')))


def stored_value(spec: Spec, i: int, context: Optional[dict] = None, epoch: int = 0):
    """Value a fault-free run of node i at `epoch` (with nothing cached) gives."""
    if spec.types[i] == 'TZ':
        return None                # a task run for its side effects: its result is None
    if spec.types[i] == 'TE':
        return U.ExcResult(('N', spec.types[i], spec.labels[i], ctx_view_for(spec, i, context),
                            tuple(stored_value(spec, j, context, epoch) for j in spec.deps[i]), epoch))
    return ('N', spec.types[i], spec.labels[i], ctx_view_for(spec, i, context),
            tuple(stored_value(spec, j, context, epoch) for j in spec.deps[i]), epoch)


def reference(spec: Spec, requested: Sequence[int], *, precached: Iterable[int] = (), faults: Iterable[int] = (),
              died: Iterable[int] = (), bust_cache: bool = False, context: Optional[dict] = None,
              pre_context: Optional[dict] = None, epoch: int = 1, corrupt: Iterable[int] = ()) -> Ref:
    precached = {i for i in precached if U.CACHEABLE[spec.types[i]]}
    faults = set(faults)
    died = set(died)
    served = set() if bust_cache else set(precached)
    needed: set = set()
    order: list = []

    def need(i):
        if i in needed:
            return
        needed.add(i)
        if i not in served:
            for j in spec.deps[i]:
                need(j)

    for i in requested:
        need(i)
    executes = needed - served
    loads = needed & served
    fails: set = set()
    own: set = set()
    value: dict = {}
    unaffected: set = set()
    for i in sorted(needed):      # indices are a topological order
        if i in loads:
            if i in corrupt:
                # the entry looks cached but cannot be loaded: the task fails (it is neither re-run
                # behind the caller's back nor are its dependencies touched)
                fails.add(i)
                own.add(i)
                continue
            value[i] = stored_value(spec, i, pre_context, 0)
            continue
        failed_dep = any(j in fails for j in spec.deps[i])
        if i in died:
            fails.add(i)
            own.add(i)
            continue
        if failed_dep:
            fails.add(i)
            continue
        if i in faults:
            fails.add(i)
            own.add(i)
            continue
        value[i] = ('N', spec.types[i], spec.labels[i], ctx_view_for(spec, i, context), tuple(value[j] for j in spec.deps[i]), epoch)
        if spec.types[i] == 'TZ':
            value[i] = None
        elif spec.types[i] == 'TE':
            value[i] = U.ExcResult(value[i])
    # unaffected = executing nodes none of whose (transitively needed) ancestors failed
    for i in executes:
        if i not in fails:
            unaffected.add(i)
    return Ref(needed=needed, executes=executes, loads=loads, fails=fails, own_fault=own,
               value=value, unaffected=unaffected)


def precache(storage, spec: Spec, built: Built, nodes: Iterable[int], context: Optional[dict] = None, corrupt: Iterable[int] = ()):
    """Put entries for `nodes` into `storage` through the cache's own save(); the stored result
    file of the nodes in `corrupt` is then cut in half (metadata left intact)."""
    for i in nodes:
        t = built.canon[i]
        if not U.CACHEABLE[spec.types[i]]:
            continue
        t._lt.cache.save(storage, t, TaskResult(value=stored_value(spec, i, context, 0), meta=FIXED_META))
        if i in corrupt:
            files = storage.d.get(t.cache_key, {})
            for fn in list(files):
                if fn != 'metadata.json':
                    files[fn] = files[fn][: len(files[fn]) // 2]
