"""E5 - parameter-tree grammar, canonical typed form, independent task finder."""
from __future__ import annotations

import itertools
from enum import Enum
from typing import Any, Callable, Iterator, Sequence

from frozendict import frozendict

from labtech.types import is_task


def canon(v: Any):
    """Independent structural form recording the Python type of every scalar,
    enum class+member, and nested task type incl. module.  Lists/tuples and
    dict/frozendict are identified (labtech normalises them); dict order is
    not recorded (the property does not decide it)."""
    if v is None:
        return ('none',)
    if isinstance(v, bool):
        return ('bool', v)
    if isinstance(v, Enum):
        import enum
        if isinstance(v, enum.Flag):
            # combinations and unnamed values of a flag enum are told apart by value
            return ('enum', type(v).__module__, type(v).__qualname__, v.name, int(v.value))
        return ('enum', type(v).__module__, type(v).__qualname__, v.name)
    if isinstance(v, int):
        return ('int', v)
    if isinstance(v, float):
        return ('float', repr(v))
    if isinstance(v, str):
        return ('str', v)
    if isinstance(v, (list, tuple)):
        return ('seq', tuple(canon(x) for x in v))
    if isinstance(v, (dict, frozendict)):
        return ('map', tuple(sorted((k, canon(x)) for k, x in v.items())))
    if is_task(v):
        return ('task', type(v).__module__, type(v).__qualname__,
                tuple((f, canon(getattr(v, f))) for f in v.__dataclass_fields__))
    return ('other', type(v).__qualname__)


def find_tasks(v: Any) -> list:
    """Tasks anywhere inside a parameter value (not descending into tasks),
    de-duplicated by equality, in traversal order."""
    out: list = []

    def walk(x):
        if is_task(x):
            if not any(x == y and type(x) is type(y) for y in out):
                out.append(x)
        elif isinstance(x, (list, tuple)):
            for y in x:
                walk(y)
        elif isinstance(x, (dict, frozendict)):
            for y in x.values():
                walk(y)
    walk(v)
    return out


# A "tree" is a build thunk description, so that the same construction can be
# repeated (fresh objects) and spelled with lists/tuples or dict/frozendict:
#   ('s', value) | ('l', (trees...)) | ('d', ((key, tree)...)) | ('t', task_type_name, tree)

def build(tree, *, types: dict, spelling: int = 0):
    """spelling 0: list / dict ; 1: tuple / frozendict"""
    kind = tree[0]
    if kind == 's':
        return tree[1]
    if kind == 'l':
        items = [build(t, types=types, spelling=spelling) for t in tree[1]]
        return tuple(items) if spelling else items
    if kind == 'd':
        items = {k: build(t, types=types, spelling=spelling) for k, t in tree[1]}
        return frozendict(items) if spelling else items
    if kind == 't':
        return types[tree[1]](build(tree[2], types=types, spelling=spelling))
    raise ValueError(kind)


def trees(depth: int, leaves: Sequence, *, width: int = 2, keys: Sequence[str] = ('a', 'b'),
          task_types: Sequence[str] = ('Leaf',), inner_leaves: Sequence = None) -> list:
    """All trees up to `depth` levels of nesting."""
    inner = list(inner_leaves if inner_leaves is not None else leaves)
    level = [('s', v) for v in inner]
    for d in range(depth):
        prev = level
        nxt = [('s', v) for v in (leaves if d == depth - 1 else inner)]
        for w in range(0, width + 1):
            for combo in itertools.product(prev, repeat=w):
                nxt.append(('l', tuple(combo)))
        for w in range(0, width + 1):
            for ks in itertools.combinations(keys, w):
                for combo in itertools.product(prev, repeat=w):
                    nxt.append(('d', tuple(zip(ks, combo))))
        for tn in task_types:
            for t in prev:
                nxt.append(('t', tn, t))
        level = nxt
    if depth == 0:
        level = [('s', v) for v in leaves]
    return level


def tree_size(tree) -> int:
    k = tree[0]
    if k == 's':
        return 1
    if k == 'l':
        return 1 + sum(tree_size(t) for t in tree[1])
    if k == 'd':
        return 1 + sum(tree_size(t) for _, t in tree[1])
    return 1 + tree_size(tree[2])


def has_task(tree) -> bool:
    k = tree[0]
    if k == 's':
        return False
    if k == 'l':
        return any(has_task(t) for t in tree[1])
    if k == 'd':
        return any(has_task(t) for _, t in tree[1])
    return True


def describe(tree) -> str:
    k = tree[0]
    if k == 's':
        return repr(tree[1])
    if k == 'l':
        return '[' + ', '.join(describe(t) for t in tree[1]) + ']'
    if k == 'd':
        return '{' + ', '.join(f'{kk!r}: {describe(t)}' for kk, t in tree[1]) + '}'
    return f'{tree[1]}({describe(tree[2])})'
