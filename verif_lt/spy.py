"""Pass-through spy around labtech's real runners.

Produces the same event vocabulary as SchedRunner, so every E2 oracle can be
evaluated on a run of the *real* SerialRunner (and of the real ProcessRunner
over the virtual multiprocessing layer), and so that real traces can be
replayed against SchedRunner (trace conformance).
"""
from __future__ import annotations

from typing import Iterator, Optional

import labtech
from labtech.runners import serial as lt_serial
from labtech.runners import base as lt_base
from labtech.types import ResultMeta, Runner, RunnerBackend

from . import universe as U
from .common import HarnessError
from .explore import Chooser
from .sched_runner import MemStorage, SchedBackend, Spin
from .spec import Built, precache, reference


class SpyRunner(Runner):

    def __init__(self, inner: Runner, events: list, horizon: int):
        self.inner = inner
        self.ev = events
        self.inflight: list = []
        self.metas: dict = {}
        self.waits = 0
        self.empty_waits = 0
        self.horizon = horizon
        self.interrupted = False
        # a pass-through spy forwards everything it does not record itself - including Runner
        # methods that only a changed labtech knows about (the base class may give them defaults)
        own = set(vars(SpyRunner))
        for name in dir(inner):
            if name.startswith('_') or name in own:
                continue
            attr = getattr(inner, name, None)
            if callable(attr):
                setattr(self, name, attr)

    def _held(self):
        rm = getattr(self.inner, 'results_map', {})
        return tuple(sorted(U.tkey(t) for t in rm))

    def submit_task(self, task, task_name, use_cache):
        rm = getattr(self.inner, 'results_map', {})
        present = tuple(sorted(U.tkey(d) for d in U.own_deps(task) if d in rm))
        self.ev.append(('submit', U.tkey(task), bool(use_cache), task_name, tuple(self.inflight), present))
        self.inflight.append(U.tkey(task))
        return self.inner.submit_task(task, task_name, use_cache)

    def wait(self, *, timeout_seconds) -> Iterator:
        self.waits += 1
        self.ev.append(('wait', tuple(self.inflight), self._held()))
        if not self.inflight:
            self.empty_waits += 1
            if self.empty_waits > 3 and not self.interrupted:
                self.ev.append(('spin',))
                raise Spin()
        if self.waits > self.horizon:
            self.ev.append(('horizon',))
            raise Spin()
        got = []
        for task, res in self.inner.wait(timeout_seconds=timeout_seconds):
            k = U.tkey(task)
            if not got:
                self.ev.append(('batch', None))
            got.append(k)
            if k in self.inflight:
                self.inflight.remove(k)
            if isinstance(res, ResultMeta):
                self.metas[k] = res
                self.ev.append(('yield', k, 'ok'))
            else:
                self.ev.append(('yield', k, 'fail'))
            yield (task, res)

    def cancel(self):
        self.ev.append(('cancel',))
        self.interrupted = True
        return self.inner.cancel()

    def stop(self):
        self.ev.append(('stop',))
        self.interrupted = True
        return self.inner.stop()

    def close(self):
        self.ev.append(('close', self._held()))
        return self.inner.close()

    def pending_task_count(self):
        # a coordinator that keeps asking without ever consuming wait() spins just as well
        self.count_calls = getattr(self, 'count_calls', 0) + 1
        if self.count_calls > 50 * self.horizon + 1000:
            self.ev.append(('horizon', 'pending_task_count'))
            raise Spin()
        return self.inner.pending_task_count()

    def get_result(self, task):
        rm = getattr(self.inner, 'results_map', {})
        self.ev.append(('get_result', U.tkey(task), task in rm))
        return self.inner.get_result(task)

    def remove_results(self, tasks):
        self.ev.append(('remove', tuple(U.tkey(t) for t in tasks)))
        return self.inner.remove_results(tasks)

    def get_task_infos(self):
        return self.inner.get_task_infos()


class SpyBackend(RunnerBackend):

    def __init__(self, inner: RunnerBackend, horizon: int = 64):
        self.inner = inner
        self.events: list = []
        self.runner: Optional[SpyRunner] = None
        self.horizon = horizon

    def build_runner(self, *, context, storage, max_workers):
        real = self.inner.build_runner(context=context, storage=storage, max_workers=max_workers)
        self.runner = SpyRunner(real, self.events, self.horizon)
        self.events.append(('build', max_workers))
        return self.runner


class _RecordRunOrLoad:
    """Wraps run_or_load_task (module-level name in a runner module) so that
    executions and loads show up in the event log."""

    def __init__(self, events, orig):
        self.events, self.orig = events, orig

    def __call__(self, *, task, task_name, use_cache, filtered_context, storage):
        k = U.tkey(task)
        try:
            r = self.orig(task=task, task_name=task_name, use_cache=use_cache,
                          filtered_context=filtered_context, storage=storage)
        except KeyboardInterrupt:
            raise
        except BaseException as ex:  # noqa
            self.events.append(('exec_fail', k, bool(use_cache), type(ex).__name__, str(ex)[:120]))
            raise
        self.events.append(('exec_ok', k, bool(use_cache)))
        return r


def _prelude(spec, ctx):
    """Start from a non-initial state: an earlier, unrelated run_tasks call in the same
    process (other Lab, other storage, other epoch) that is aborted by a failure with
    continue_on_failure=False, so whatever the runner holds at that moment is left behind.
    Nothing of it may leak into the measured run."""
    built = Built(spec)
    storage = MemStorage()
    try:
        U.WORLD.reset(epoch=7, faults=[spec.labels[spec.n - 1]])
        # (through the spy, for its horizon: a coordinator that never finishes must not hang the checker here)
        lab = labtech.Lab(storage=storage, runner_backend=SpyBackend(lt_serial.SerialRunnerBackend(), horizon=4 * spec.n + 8),
                          continue_on_failure=False, notebook=False, context=ctx)
        try:
            lab.run_tasks(list(built.canon), disable_progress=True, disable_top=True)
        except BaseException:  # noqa
            pass
    finally:
        storage.release()


def run_once_serial(cfg, *, max_workers=None, prelude=False, around_run=None, warm_objects=False, displays=False):
    """Run one E2 configuration on the real SerialRunner under the spy."""
    from .e2 import Obs, call_run
    spec = cfg.spec
    ctx = dict(cfg.context) if cfg.context is not None else None
    if prelude:
        _prelude(spec, ctx)
    built = Built(spec)
    if warm_objects:
        # the very same task objects have already been through an earlier, complete run_tasks
        # call (other Lab, other storage, other epoch): nothing remembered on them may be reused
        st0 = MemStorage()
        try:
            U.WORLD.reset(epoch=7)
            labtech.Lab(storage=st0, runner_backend=SpyBackend(lt_serial.SerialRunnerBackend(), horizon=4 * spec.n + 8), notebook=False, context=ctx).run_tasks(
                list(built.canon), disable_progress=True, disable_top=True)
        except BaseException:  # noqa
            # whatever made this fault-free warm-up run fail shows in the measured run below
            pass
        finally:
            st0.release()
    storage = MemStorage()
    orig = lt_serial.run_or_load_task
    backend = SpyBackend(lt_serial.SerialRunnerBackend(), horizon=4 * spec.n + 8)
    lt_serial.run_or_load_task = _RecordRunOrLoad(backend.events, orig)
    try:
        precache(storage, spec, built, cfg.precached, ctx, corrupt=cfg.corrupt)
        U.WORLD.reset(epoch=1, faults=[spec.labels[i] for i in cfg.faults], fault_exc=cfg.fault_exc)
        req = [built.get(i, fr) for i, fr in cfg.requested]
        lab = labtech.Lab(storage=storage, runner_backend=backend, continue_on_failure=cfg.cof,
                          notebook=False, context=ctx, max_workers=max_workers)
        import contextlib
        import io
        quiet = contextlib.redirect_stderr(io.StringIO()) if displays else contextlib.nullcontext()
        if cfg.history:
            from .e2 import lab_history
            lab_history(lab, cfg, backend.events)
            backend.runner = None
            U.WORLD.reset(epoch=1, faults=[spec.labels[i] for i in cfg.faults], fault_exc=cfg.fault_exc)
        try:
            if cfg.precached:
                # the caller looks at the cache before the run (whatever a Lab remembers from that must not outlive the entry)
                [lab.is_cached(t) for t in built.canon]
            with quiet, (around_run(backend) if around_run is not None else contextlib.nullcontext()):
                res = call_run(lab, req, cfg, disable_progress=not displays, disable_top=not displays)
            outcome = ('return', res)
        except Spin as e:
            outcome = ('spin', e)
        except BaseException as e:  # noqa
            outcome = ('raise', e)
        ref = reference(spec, [i for i, _ in cfg.requested], precached=cfg.precached, faults=cfg.faults,
                        died=cfg.died, bust_cache=cfg.bust_cache, context=ctx, pre_context=ctx, corrupt=cfg.corrupt)
        metas = dict(backend.runner.metas) if backend.runner else {}
        o = Obs(cfg=cfg, ref=ref, events=backend.events, world=list(U.WORLD.log), outcome=outcome,
                req_tasks=req, built=built, storage=storage, metas=metas, choices=[])
        o.lab = lab
        return o
    finally:
        lt_serial.run_or_load_task = orig
        storage.release()


class ForcedChooser(Chooser):
    """Chooser whose answers are dictated by a recorded real trace: at every
    wait it completes exactly the batch the real runner yielded next."""

    def __init__(self, batches: list):
        super().__init__()
        self.batches = list(batches)
        self.pos = 0
        self.rejected = None

    def choose(self, n, tag=None, fp=None, label_of=None):
        if self.pos >= len(self.batches):
            self.rejected = f'real trace has no batch for wait #{self.pos}'
            c = 0
        else:
            want = self.batches[self.pos]
            c = None
            for cand in range(n):
                if label_of is not None and label_of(cand) == want:
                    c = cand
                    break
            if c is None:
                self.rejected = f'batch {want} of the real trace is not offered at wait #{self.pos}'
                c = 0
        self.pos += 1
        self.trace.append((c, n, tag))
        self.fps.append(fp)
        self.labels.append(c)
        return c


def conformance_trace(obs_real) -> Optional[str]:
    """Replay the submit / yield trace of a real-runner run on SchedRunner.
    Returns None when accepted, else the reason it was rejected."""
    from .e2 import outcome_fp
    return conformance_trace_raw(obs_real.cfg, obs_real.events, outcome_fp(obs_real))


def conformance_trace_raw(cfg_real, events_real, outcome_fp_real) -> Optional[str]:
    from .e2 import run_once, outcome_fp
    from dataclasses import replace
    from types import SimpleNamespace
    obs_real = SimpleNamespace(cfg=cfg_real, events=events_real)
    # batches of the real run, as tuples of positions in the in-flight list
    inflight: list = []
    batches: list = []
    cur = None
    real_seq = []
    for ev in obs_real.events:
        if ev[0] == 'submit':
            inflight.append(ev[1])
            real_seq.append(('submit', ev[1], ev[2]))
        elif ev[0] == 'wait':
            if cur is not None:
                batches.append(tuple(cur))
            # SchedRunner asks for no choice when nothing is in flight
            cur = [] if inflight else None
            pending_pos = list(inflight)
        elif ev[0] == 'yield':
            cur.append(pending_pos.index(ev[1]))
            inflight.remove(ev[1])
            real_seq.append(('yield', ev[1], ev[2]))
    if cur is not None:
        batches.append(tuple(cur))
    # consecutive empty polls (time-outs) are stutter-equivalent to one
    collapsed = []
    for b in batches:
        if not b and collapsed and not collapsed[-1]:
            continue
        collapsed.append(b)
    batches = collapsed
    # (the trace is that of the measured call; whatever the Lab object went through before is not replayed)
    cfg = replace(obs_real.cfg, batch=max([len(b) for b in batches] + [1]), stutter=True, history='')
    ch = ForcedChooser(batches)
    obs = run_once(cfg, ch)
    if ch.rejected:
        return ch.rejected
    model_seq = []
    for ev in obs.events:
        if ev[0] == 'submit':
            model_seq.append(('submit', ev[1], ev[2]))
        elif ev[0] == 'yield':
            model_seq.append(('yield', ev[1], ev[2]))
    if model_seq != real_seq:
        return f'submit/yield sequences differ: real {real_seq} model {model_seq}'
    if _norm(outcome_fp(obs)) != _norm(outcome_fp_real):
        return f'outcomes differ: real {outcome_fp_real} model {outcome_fp(obs)}'
    return None


def _norm(x):
    if isinstance(x, (list, tuple)):
        return tuple(_norm(y) for y in x)
    return x
