"""Second module defining types with the same qualified names as dtypes."""
from __future__ import annotations

from enum import Enum

from .dtypes import _mk


class Color(Enum):          # same qualified name as dtypes.Color, other module
    RED = 1
    GREEN = 2


Foo = _mk('Foo', __name__, fields=('p', 'q'))
Leaf = _mk('Leaf', __name__, fields=('v',))
