"""E6 - fault, interrupt and crash enumeration helpers.

* LineInjector: sys.monitoring (PEP 669) LINE callback that counts line events of
  selected labtech code objects and raises a chosen exception at event k.
* FaultyStorage: Storage wrapper raising at the j-th storage-level operation.
* RawLog: logging raw-file layer under pathlib.Path.open / mkdir, giving the
  sequence of raw filesystem operations of a save; crash-state materialiser.
"""
from __future__ import annotations

import io
import os
import pathlib
import shutil
import sys
from typing import Callable, Optional, Sequence

from labtech.types import Storage

from .common import LABTECH_SRC

mon = sys.monitoring
TOOL = 3   # sys.monitoring tool id used by the checker


_WITH_EXIT: dict = {}


def with_exit_offsets(code) -> frozenset:
    """Offsets at which a LINE event announces the *normal exit* of a with statement (the
    LOAD_CONST None x3 / CALL 2 sequence that calls __exit__).  CPython only looks at pending
    signals after calls and at backward jumps / function entry, never between the end of a with
    body and the call of __exit__, so a KeyboardInterrupt cannot be raised there: these events
    are not interrupt points."""
    r = _WITH_EXIT.get(code)
    if r is None:
        import dis
        ins = list(dis.get_instructions(code))
        offs = set()
        for i in range(len(ins) - 3):
            a, b, c, d = ins[i:i + 4]
            if (a.opname == b.opname == c.opname == 'LOAD_CONST' and a.argval is None and b.argval is None and c.argval is None
                    and d.opname == 'CALL' and d.arg == 2):
                offs.add(a.offset)
            # the exceptional exit: PUSH_EXC_INFO / WITH_EXCEPT_START (calls __exit__ with the exception);
            # no signal check happens between the raise inside the body and that call either
            if a.opname == 'PUSH_EXC_INFO' and b.opname == 'WITH_EXCEPT_START':
                offs.add(a.offset)
        # a line that starts with a NOP (`try:`, `else:` ...): nothing can be raised by a NOP and no
        # signal check happens there - the compiler does not even cover it with the enclosing
        # exception table, so an exception injected exactly there would skip every handler and every
        # finally clause of the function, which no real execution can do
        for a in ins:
            if a.opname == 'NOP' and a.starts_line is not None:
                offs.add(a.offset)
        r = _WITH_EXIT[code] = frozenset(offs)
    return r


class LineInjector:
    """Counts LINE events of code objects accepted by `want(code)` while `active`
    is true; at event number `at` (1-based) raises `exc_factory()`.  at=None only counts."""

    def __init__(self, want: Callable, *, at=None, exc_factory=None, gate: Optional[Callable] = None, second_at=None,
                 sched=None, switch_files: Sequence[str] = ()):
        self.want = want
        self.sched = sched                  # vmp.TSched: helper threads run under a baton
        self.switch_files = tuple(switch_files)
        self.helper_live_at: list = []      # counted main-thread events at which a helper thread was alive
        self.at = at
        self.second_at = second_at
        self.exc_factory = exc_factory
        self.gate = gate
        self.count = 0
        self.sites: list = []          # (filename, lineno, qualname) per counted event
        self.fired: list = []
        self.trail: list = []          # qualname of every counted event (cheap)
        self.record_sites = at is None

    def _cb(self, code, lineno):
        if not self.want(code):
            return mon.DISABLE
        sched = self.sched
        if sched is not None:
            h = sched.current_helper()
            if h is not None:
                sched.helper_point(h, (code.co_qualname, lineno))
                return None
        if self.gate is not None and not self.gate():
            return None
        wx = with_exit_offsets(code)
        if wx and sys._getframe(1).f_lasti in wx:
            return None
        if sched is not None and sched.live():
            if code.co_filename.endswith(self.switch_files):
                sched.main_point((code.co_qualname, lineno))
            self.helper_live_at.append(self.count + 1)
        self.count += 1
        self.trail.append(code.co_qualname)
        if self.record_sites:
            self.sites.append((code.co_filename, lineno, code.co_qualname))
        if self.at is not None and (self.count == self.at or (self.second_at is not None and self.count == self.second_at)):
            self.fired.append((code.co_filename, lineno, code.co_qualname, self.count))
            raise self.exc_factory()
        return None

    def __enter__(self):
        try:
            mon.use_tool_id(TOOL, 'verif_lt')
        except ValueError:
            mon.free_tool_id(TOOL)
            mon.use_tool_id(TOOL, 'verif_lt')
        mon.register_callback(TOOL, mon.events.LINE, self._cb)
        mon.set_events(TOOL, mon.events.LINE)
        mon.restart_events()
        return self

    def __exit__(self, *exc):
        mon.set_events(TOOL, 0)
        mon.register_callback(TOOL, mon.events.LINE, None)
        mon.free_tool_id(TOOL)
        return False


_LINE_OF: dict = {}


def line_of(code, offset: int) -> int:
    """Source line of a bytecode offset."""
    tab = _LINE_OF.get(code)
    if tab is None:
        tab = _LINE_OF[code] = [(a, b, ln) for a, b, ln in code.co_lines()]
    for a, b, ln in tab:
        if a <= offset < b:
            return ln if ln is not None else code.co_firstlineno
    return code.co_firstlineno


class SignalInjector(LineInjector):
    """Interrupt points as CPython really has them.  The interpreter looks at pending signals
    (a) when a Python function is entered or a generator resumed, (b) right after a call of a
    C function returns or raises, (c) at backward jumps.  A KeyboardInterrupt from Ctrl-C can only
    surface at those instants - including *inside* a statement (after the call of `x = f()` has
    returned, before x is bound).  This injector counts exactly those events (sys.monitoring
    PY_START / PY_RESUME / C_RETURN / C_RAISE / backward JUMP) in the selected code objects and
    raises at event k.  LINE events are still observed, uncounted, for the qualname trail and for
    thread switch points."""

    EVENTS = None

    def _point(self, code, offset, kind):
        if not self.want(code):
            return None
        if self.sched is not None and self.sched.current_helper() is not None:
            return None
        if self.gate is not None and not self.gate():
            return None
        lineno = line_of(code, offset)
        self.count += 1
        if self.record_sites:
            self.sites.append((code.co_filename, lineno, code.co_qualname, kind))
        if self.at is not None and (self.count == self.at or (self.second_at is not None and self.count == self.second_at)):
            if kind == 'loop':
                # CPython 3.12 mishandles an exception raised from a JUMP callback (it escapes every
                # handler and finally clause of the frame): deliver it at the LINE event of the jump
                # target instead, which is the very next thing that happens
                self._pending_loop = (code, lineno, self.count)
                return None
            self.fired.append((code.co_filename, lineno, code.co_qualname, self.count, kind))
            raise self.exc_factory()
        return None

    def virtual_point(self, label: str):
        """An instant inside an OS-level call of the (virtual) multiprocessing layer."""
        self.count += 1
        if self.record_sites:
            self.sites.append(('<os>', 0, label, 'in-os-call'))
        if self.at is not None and (self.count == self.at or (self.second_at is not None and self.count == self.second_at)):
            self.fired.append(('<os>', 0, label, self.count, 'in-os-call'))
            raise self.exc_factory()

    _pending_loop = None

    def _line(self, code, lineno):
        if not self.want(code):
            return mon.DISABLE
        sched = self.sched
        if sched is not None:
            h = sched.current_helper()
            if h is not None:
                sched.helper_point(h, (code.co_qualname, lineno))
                return None
        if self.gate is not None and not self.gate():
            return None
        if self._pending_loop is not None and self._pending_loop[0] is code:
            _, ln, cnt = self._pending_loop
            self._pending_loop = None
            self.fired.append((code.co_filename, ln, code.co_qualname, cnt, 'loop'))
            raise self.exc_factory()
        if sched is not None and sched.live() and code.co_filename.endswith(self.switch_files):
            sched.main_point((code.co_qualname, lineno))
        self.trail.append(code.co_qualname)
        return None

    def __enter__(self):
        try:
            mon.use_tool_id(TOOL, 'verif_lt')
        except ValueError:
            mon.free_tool_id(TOOL)
            mon.use_tool_id(TOOL, 'verif_lt')
        E = mon.events
        mon.register_callback(TOOL, E.LINE, self._line)
        mon.register_callback(TOOL, E.PY_START, lambda code, off: self._point(code, off, 'entry'))
        mon.register_callback(TOOL, E.PY_RESUME, lambda code, off: self._point(code, off, 'resume'))
        mon.register_callback(TOOL, E.C_RETURN, lambda code, off, fn, a0: self._point(code, off, 'after-call'))
        mon.register_callback(TOOL, E.C_RAISE, lambda code, off, fn, a0: self._point(code, off, 'after-call'))
        mon.register_callback(TOOL, E.JUMP, lambda code, off, dest: self._point(code, off, 'loop') if dest < off else None)
        # C_RETURN / C_RAISE are delivered as part of the CALL event group
        mon.set_events(TOOL, E.LINE | E.PY_START | E.PY_RESUME | E.CALL | E.JUMP)
        mon.restart_events()
        return self

    def __exit__(self, *exc):
        E = mon.events
        mon.set_events(TOOL, 0)
        for ev in (E.LINE, E.PY_START, E.PY_RESUME, E.C_RETURN, E.C_RAISE, E.JUMP):
            mon.register_callback(TOOL, ev, None)
        mon.free_tool_id(TOOL)
        return False


def labtech_file(name: str) -> str:
    import labtech
    return os.path.join(os.path.dirname(os.path.abspath(labtech.__file__)), name)


def in_files(*names) -> Callable:
    files = {labtech_file(n) for n in names}
    return lambda code: code.co_filename in files


# ---------------------------------------------------------------------------

class InjectedFault(OSError):
    pass


class _FaultyHandle:
    def __init__(self, fs: 'FaultyStorage', inner, label, deferred=False):
        self._fs, self._inner, self._label = fs, inner, label
        # deferred: a storage whose write errors only surface at flush/close (full disk behind a
        # buffer, commit-on-close remote file): writes are accepted, close() fails, nothing is stored
        self._deferred = deferred
        self._closed = False

    def __del__(self):
        # what garbage collection does to a handle that was never closed: close it and
        # swallow any error
        try:
            if not self._closed:
                self._closed = True
                self._inner.close()
        except BaseException:  # noqa
            pass

    def write(self, data):
        if self._deferred:
            self._fs.trace.append(('write-buffered', self._label))
            return len(data)
        mode = self._fs.point(('write', self._label))
        if mode == 'raise':
            raise InjectedFault(f'injected fault at write of {self._label}')
        if mode == 'partial':
            self._inner.write(data[: max(1, len(data) // 2)])
            raise InjectedFault(f'injected fault after a partial write of {self._label}')
        return self._inner.write(data)

    def close(self):
        if self._closed:
            return
        self._closed = True
        if self._deferred:
            self._inner.close()
            self._fs.fired = ('close-loses-data', self._label)
            raise InjectedFault(f'injected fault: the data written to {self._label} could not be flushed at close')
        mode = self._fs.point(('close', self._label))
        self._inner.close()
        if mode is not None:
            raise InjectedFault(f'injected fault at close of {self._label}')

    def __enter__(self):
        return self

    def __exit__(self, *exc):
        self.close()
        return False

    def __getattr__(self, name):
        return getattr(self._inner, name)

    def __iter__(self):
        return iter(self._inner)


class FaultyStorage(Storage):
    """Wraps a Storage; operation number `at` (1-based, counted over file_handle
    calls for writing, write() calls and close() calls) fails in the given mode."""

    def __init__(self, inner: Storage, *, at=None, mode='raise', defer_open=None):
        self.inner = inner
        self.at = at
        self.mode = mode
        self.defer_open = defer_open      # the n-th open-for-write returns a handle whose data is lost at close
        self.opens = 0
        self.n = 0
        self.trace: list = []
        self.fired = None
        # a transparent wrapper: whatever plain (non-callable) public attributes the wrapped provider's
        # class declares - capabilities a cache may consult - read the same on the wrapper
        import inspect
        for name in dir(type(inner)):
            if name.startswith('_'):
                continue
            static = inspect.getattr_static(type(inner), name)
            if callable(static) or isinstance(static, (property, staticmethod, classmethod)):
                continue
            try:
                setattr(self, name, getattr(inner, name))
            except Exception:  # noqa
                pass

    def point(self, what):
        self.n += 1
        self.trace.append(what)
        if self.at is not None and self.n == self.at:
            self.fired = what
            return self.mode
        return None

    def find_keys(self):
        return self.inner.find_keys()

    def exists(self, key):
        return self.inner.exists(key)

    def file_handle(self, key, filename, *, mode='r'):
        if 'r' in mode and '+' not in mode:
            return self.inner.file_handle(key, filename, mode=mode)
        if self.point(('open', filename, mode)) is not None:
            raise InjectedFault(f'injected fault opening {filename}')
        self.opens += 1
        return _FaultyHandle(self, self.inner.file_handle(key, filename, mode=mode), filename,
                             deferred=(self.defer_open is not None and self.opens == self.defer_open))

    def delete(self, key):
        # Removing an entry is not atomic on any provider (rmtree unlinks file by file, an object
        # store removes object by object): every single removal is a fault point of its own.
        path = None
        try:
            path = self.inner._key_to_path(key)
        except Exception:  # noqa
            pass
        if path is not None and os.path.isdir(path):
            for name in sorted(os.listdir(path)):
                if self.point(('unlink', name)) is not None:
                    raise InjectedFault(f'injected fault removing {name}')
                fp = os.path.join(path, name)
                if os.path.isfile(fp) or os.path.islink(fp):
                    os.unlink(fp)
            if self.point(('rmdir', key)) is not None:
                raise InjectedFault('injected fault removing the entry directory')
        return self.inner.delete(key)


# ---------------------------------------------------------------------------
# Raw-operation log of a save on a real directory

class _LoggingFileIO(io.FileIO):
    def __init__(self, path, mode, log):
        self._log, self._p = log, str(path)
        existed = os.path.exists(path)
        super().__init__(path, mode)
        log.append(('open', self._p, 'trunc' if 'w' in mode else mode, existed))

    def write(self, b):
        data = bytes(b)
        self._log.append(('write', self._p, data))
        return super().write(b)

    def close(self):
        if not self.closed:
            self._log.append(('close', self._p))
        super().close()


class RawLog:
    """Context manager: while active, pathlib.Path.open (write modes) and Path.mkdir
    under `root` go through a raw layer that logs mkdir / open / write / close while
    also performing them.  `pywrites` logs Python-level write-call boundaries."""

    def __init__(self, root: str):
        self.root = os.path.realpath(root)
        self.log: list = []

    def __enter__(self):
        self._open, self._mkdir = pathlib.Path.open, pathlib.Path.mkdir
        rl = self

        def p_open(self_p, mode='r', buffering=-1, encoding=None, errors=None, newline=None):
            sp = str(self_p)
            if not sp.startswith(rl.root) or ('w' not in mode and 'a' not in mode and 'x' not in mode and '+' not in mode):
                return rl._open(self_p, mode, buffering, encoding, errors, newline)
            raw = _LoggingFileIO(sp, mode.replace('b', '').replace('t', ''), rl.log)
            buf = io.BufferedWriter(raw)
            if 'b' in mode:
                return _PyWriteLogger(buf, rl.log, sp)
            return _PyWriteLogger(io.TextIOWrapper(buf, encoding=encoding or 'utf-8', errors=errors, newline=newline), rl.log, sp)

        def p_mkdir(self_p, mode=0o777, parents=False, exist_ok=False):
            sp = str(self_p)
            existed = os.path.isdir(sp)
            r = rl._mkdir(self_p, mode, parents, exist_ok)
            if sp.startswith(rl.root) and not existed:
                rl.log.append(('mkdir', sp))
            return r

        pathlib.Path.open = p_open
        pathlib.Path.mkdir = p_mkdir
        # removals and renames (shutil.rmtree works relative to directory descriptors)
        self._os = {n: getattr(os, n) for n in ('unlink', 'remove', 'rmdir', 'rename', 'replace')}

        def full(path, dir_fd):
            path = os.fspath(path)
            if isinstance(path, bytes):
                path = os.fsdecode(path)
            if dir_fd is not None and not os.path.isabs(path):
                path = os.path.join(os.readlink(f'/proc/self/fd/{dir_fd}'), path)
            return os.path.abspath(path)

        def mk_rm(name, tag):
            orig = self._os[name]

            def f(path, *a, dir_fd=None, **kw):
                fp = full(path, dir_fd)
                r = orig(path, *a, dir_fd=dir_fd, **kw) if dir_fd is not None else orig(path, *a, **kw)
                if fp.startswith(rl.root):
                    rl.log.append((tag, fp))
                return r
            return f

        def mk_mv(name):
            orig = self._os[name]

            def f(src, dst, *a, src_dir_fd=None, dst_dir_fd=None, **kw):
                fs, fd = full(src, src_dir_fd), full(dst, dst_dir_fd)
                extra = {}
                if src_dir_fd is not None:
                    extra['src_dir_fd'] = src_dir_fd
                if dst_dir_fd is not None:
                    extra['dst_dir_fd'] = dst_dir_fd
                r = orig(src, dst, *a, **extra, **kw)
                if fs.startswith(rl.root) or fd.startswith(rl.root):
                    rl.log.append(('rename', fs, fd))
                return r
            return f
        os.unlink, os.remove, os.rmdir = mk_rm('unlink', 'unlink'), mk_rm('remove', 'unlink'), mk_rm('rmdir', 'rmdir')
        os.rename, os.replace = mk_mv('rename'), mk_mv('replace')
        return self

    def __exit__(self, *exc):
        pathlib.Path.open, pathlib.Path.mkdir = self._open, self._mkdir
        for n, f in self._os.items():
            setattr(os, n, f)
        return False


class _PyWriteLogger:
    """Top-level file object proxy recording Python-level write-call boundaries."""

    def __init__(self, inner, log, path):
        self._inner, self._log, self._path = inner, log, path

    def write(self, data):
        r = self._inner.write(data)
        self._log.append(('pywrite', self._path, data.encode('utf-8') if isinstance(data, str) else bytes(data)))
        return r

    def __enter__(self):
        return self

    def __exit__(self, *exc):
        self._inner.close()
        return False

    def close(self):
        self._inner.close()

    def __getattr__(self, name):
        return getattr(self._inner, name)


def relog(log: Sequence, root: str) -> list:
    """Make paths relative to root."""
    out = []
    root = os.path.realpath(root)
    for op in log:
        if op[0] == 'rename':
            out.append((op[0], os.path.relpath(op[1], root), os.path.relpath(op[2], root)))
        else:
            out.append((op[0], os.path.relpath(op[1], root)) + tuple(op[2:]))
    return out


def crash_states(log: Sequence) -> list:
    """All crash states of a raw-op log: list of (label, [raw ops to apply]).
    raw ops exclude 'pywrite' markers.  Includes torn variants of each write and,
    at each Python-level write boundary, the 'everything handed over so far is on
    disk' variant."""
    raw = [op for op in log if op[0] != 'pywrite']
    states = []
    for i in range(len(raw) + 1):
        states.append((f'prefix-{i}/{len(raw)}', raw[:i]))
        if i < len(raw) and raw[i][0] == 'write':
            data = raw[i][2]
            cuts = sorted(({1, len(data) // 2, len(data) - 1} | set(mid_character_cuts(data))) - {0, len(data)})
            for c in cuts:
                if 0 < c < len(data):
                    states.append((f'torn-{i}@{c}/{len(data)}', raw[:i] + [('write', raw[i][1], data[:c])]))
    # the order in which a recursive delete removes the files of one directory is decided by the
    # file system (directory iteration order), not by the code: within a run of consecutive unlinks
    # in one directory every subset may be what a crash leaves removed
    i = 0
    while i < len(raw):
        j = i
        while j < len(raw) and raw[j][0] == 'unlink' and os.path.dirname(raw[j][1]) == os.path.dirname(raw[i][1]):
            j += 1
        if j - i >= 2 and j - i <= 4:
            import itertools
            run = raw[i:j]
            for r in range(1, len(run)):
                for sub in itertools.combinations(run, r):
                    if list(sub) == run[:r]:
                        continue          # already a prefix state
                    states.append((f'unlink-order-{i}:' + '+'.join(os.path.basename(o[1]) for o in sub), raw[:i] + list(sub)))
        i = max(j, i + 1)
    # flushed variants: position in the full log at each pywrite; all bytes handed so far written
    handed: dict = {}
    structural = []
    for j, op in enumerate(log):
        if op[0] == 'pywrite':
            handed.setdefault(op[1], b'')
            handed[op[1]] += op[2]
            ops = list(structural)
            for path, data in handed.items():
                ops = [o for o in ops if not (o[0] == 'write' and o[1] == path)]
                ops.append(('write', path, data))
            states.append((f'flushed-at-pywrite-{j}', ops))
        elif op[0] in ('mkdir', 'open', 'close', 'unlink', 'rmdir', 'rename'):
            structural.append(op)
            if op[0] == 'unlink':
                handed.pop(op[1], None)
            if op[0] == 'rename' and op[1] in handed:
                handed[op[2]] = handed.pop(op[1])
            if op[0] == 'open' and op[2] == 'trunc':
                handed[op[1]] = b''
    return states


def materialise(ops: Sequence, dest: str, template: Optional[str] = None):
    """Build the directory a crash after `ops` leaves behind.  File offsets are tracked per path:
    an open without truncation overwrites in place from offset 0, an append-mode open continues
    at the end."""
    if template:
        shutil.copytree(template, dest, symlinks=True)
    else:
        os.makedirs(dest, exist_ok=True)
    offset: dict = {}
    for op in ops:
        p = os.path.join(dest, op[1])
        if op[0] == 'mkdir':
            os.makedirs(p, exist_ok=True)
        elif op[0] == 'open':
            how = op[2]
            if how == 'trunc' or (how not in ('keep', 'append') and 'a' not in how and '+' not in how):
                open(p, 'wb').close()
                offset[op[1]] = 0
            else:
                if not os.path.exists(p):
                    open(p, 'wb').close()
                offset[op[1]] = os.path.getsize(p) if (how == 'append' or 'a' in how) else 0
        elif op[0] == 'write':
            if not os.path.exists(p):
                open(p, 'wb').close()
            off = offset.get(op[1], os.path.getsize(p))
            with open(p, 'r+b') as f:
                f.seek(off)
                f.write(op[2])
            offset[op[1]] = off + len(op[2])
        elif op[0] == 'close':
            pass
        elif op[0] == 'unlink':
            if os.path.lexists(p):
                os.unlink(p)
        elif op[0] == 'rmdir':
            if os.path.isdir(p):
                os.rmdir(p)
        elif op[0] == 'rename':
            if os.path.lexists(p):
                os.replace(p, os.path.join(dest, op[2]))


def mid_character_cuts(data: bytes) -> list:
    """Cut positions that fall inside a multi-byte UTF-8 character."""
    return [i for i in range(1, len(data)) if data[i] & 0xC0 == 0x80][:12]


def dir_state(root: str) -> dict:
    out = {}
    for dp, dn, fn in os.walk(root):
        for d in dn:
            out[os.path.relpath(os.path.join(dp, d), root)] = None
        for f in fn:
            with open(os.path.join(dp, f), 'rb') as fh:
                out[os.path.relpath(os.path.join(dp, f), root)] = fh.read()
    return out
