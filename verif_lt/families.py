"""Configuration families (small-scope enumeration) for the E2 / spy harnesses."""
from __future__ import annotations

import itertools
from typing import Iterable, Iterator, Sequence

from . import universe as U
from .e2 import Config
from .spec import PLACEMENTS, all_shapes, all_subsets, mk_spec, nonempty_subsets


def closure(deps, req: Iterable[int]) -> set:
    out: set = set()
    stack = list(req)
    while stack:
        i = stack.pop()
        if i in out:
            continue
        out.add(i)
        stack.extend(deps[i])
    return out


def fam_shapes(nmin: int, nmax: int, *, batch: int = 2, types: str = 'TA', pre: bool = True,
               bust=(False,)) -> Iterator[Config]:
    """Every DAG shape x every requested non-empty subset x every pre-cached
    subset of the requested closure."""
    for n in range(nmin, nmax + 1):
        for shape in all_shapes(n):
            spec = mk_spec(shape, types=(types,) * n)
            for req in nonempty_subsets(range(n)):
                clo = sorted(closure(shape, req))
                pres = all_subsets(clo) if pre else [()]
                for p in pres:
                    for b in bust:
                        if b and not p:
                            continue
                        yield Config(spec=spec, requested=tuple((i, False) for i in req), precached=tuple(p),
                                     batch=batch, bust_cache=b)


def request_variants(n: int) -> list[tuple]:
    """Request lists over nodes 0..n-1: every permutation of every non-empty
    subset, plus duplicates (same instance twice, a fresh equal instance)."""
    out = []
    for sub in nonempty_subsets(range(n)):
        for perm in itertools.permutations(sub):
            out.append(tuple((i, False) for i in perm))
    for i in range(n):
        out.append(((i, False), (i, False)))
        out.append(((i, False), (i, True)))
        out.append(((i, True), (i, True)))
        for j in range(n):
            if j != i:
                out.append(((i, False), (j, False), (i, True)))
    return out


def fam_variants(nmax: int, *, batch: int = 2, cross: bool = False) -> Iterator[Config]:
    """n <= nmax: placements x duplication, type assignments, request orders and
    duplicates, pre-cached subsets.  With cross=False the dimensions vary one
    at a time around the default; with cross=True their full product."""
    tnames = ('TA', 'TB', 'TC', 'TN')
    for n in range(1, nmax + 1):
        for shape in all_shapes(n):
            reqs = request_variants(n)
            full = tuple((i, False) for i in range(n))
            if cross:
                for place in PLACEMENTS:
                    for dup in (False, True):
                        for types in itertools.product(tnames, repeat=n):
                            spec = mk_spec(shape, types=types, place=(place,) * n, dup=dup)
                            for req in reqs:
                                for p in all_subsets(sorted(closure(shape, [i for i, _ in req]))):
                                    yield Config(spec=spec, requested=req, precached=tuple(p), batch=batch)
                continue
            # placements x dup (all nodes requested + each single sink)
            for place in PLACEMENTS:
                for dup in (False, True):
                    spec = mk_spec(shape, place=(place,) * n, dup=dup)
                    for req in (full, ((n - 1, False),), ((n - 1, True), (0, False))):
                        for p in all_subsets(range(n)):
                            yield Config(spec=spec, requested=req, precached=tuple(p), batch=batch)
            # type assignments
            for types in itertools.product(tnames, repeat=n):
                spec = mk_spec(shape, types=types)
                for p in all_subsets(range(n)):
                    yield Config(spec=spec, requested=full, precached=tuple(p), batch=batch)
            # request orders / duplicates (cold, and with every single node pre-cached: a cached task
            # that occurs as several equal instances)
            spec = mk_spec(shape)
            for req in reqs:
                yield Config(spec=spec, requested=req, batch=batch)
                yield Config(spec=mk_spec(shape, dup=True), requested=req, batch=batch)
                if len(req) > 1:
                    for i in sorted({i for i, _ in req}):
                        yield Config(spec=mk_spec(shape, dup=True), requested=req, precached=(i,), batch=batch)


def fam_faults(nmin: int, nmax: int, *, max_faults: int = 1, batch: int = 2, kinds=('raise', 'died'),
               cofs=(True, False), perms: bool = False, reqs: str = 'subsets', types: str = 'TA',
               pre: bool = False, fault_exc: str = 'boom', bust=(False,)) -> Iterator[Config]:
    """DAG shapes x requested subsets x fault sets (size 1..max_faults) x fault
    kind x continue_on_failure; optionally all label permutations."""
    for n in range(nmin, nmax + 1):
        label_sets = list(itertools.permutations(range(n))) if perms else [tuple(range(n))]
        for shape in all_shapes(n):
            if reqs == 'subsets':
                req_list = list(nonempty_subsets(range(n)))
            elif reqs == 'all':
                req_list = [tuple(range(n))]
            else:
                req_list = [tuple(range(n)), (n - 1,)]
            for labels in label_sets:
                spec = mk_spec(shape, labels=labels, types=(types,) * n)
                for req in req_list:
                    clo = sorted(closure(shape, req))
                    for k in range(1, max_faults + 1):
                        for fs in itertools.combinations(clo, k):
                            for kind_assign in itertools.product(kinds, repeat=k):
                                faults = tuple(f for f, kd in zip(fs, kind_assign) if kd == 'raise')
                                died = tuple(f for f, kd in zip(fs, kind_assign) if kd == 'died')
                                pres = all_subsets(clo) if pre else [()]
                                for p in pres:
                                    for cof in cofs:
                                        for b in bust:
                                            if b and not p:
                                                continue
                                            yield Config(spec=spec, requested=tuple((i, False) for i in req),
                                                         precached=tuple(p), faults=faults, died=died, cof=cof, batch=batch,
                                                         fault_exc=fault_exc, bust_cache=b)


def fam_limits(nmin: int, nmax: int, *, batch: int = 2, tnames=('TA', 'TB', 'TC'), faults: bool = False,
               stutter: bool = False) -> Iterator[Config]:
    """DAG shapes x per-node type assignment over types with different
    max_parallel, all nodes requested (maximises concurrency)."""
    for n in range(nmin, nmax + 1):
        for shape in all_shapes(n):
            for types in itertools.product(tnames, repeat=n):
                spec = mk_spec(shape, types=types)
                req = tuple((i, False) for i in range(n))
                yield Config(spec=spec, requested=req, batch=batch, stutter=stutter)
                if 1 < n <= 3 and any(shape):
                    # every reference is a fresh equal instance (duplicates of limited-type tasks)
                    yield Config(spec=mk_spec(shape, types=types, dup=True), requested=req + ((0, True),), batch=batch, stutter=stutter)
                if 1 < n <= 3 and not any(shape):
                    # every requested task is a separately pickled copy (tasks returned by other tasks, loaded from files)
                    yield Config(spec=spec, requested=tuple((i, 2) for i in range(n)), batch=batch, stutter=stutter)
                if n > 1 and n <= 3:
                    # dependents ahead of their dependencies in the coordinator's pending order
                    yield Config(spec=spec, requested=tuple(reversed(req)), batch=batch, stutter=stutter)
                    yield Config(spec=spec, requested=((n - 1, False),), batch=batch, stutter=stutter)
                if faults:
                    for f in range(n):
                        yield Config(spec=spec, requested=req, batch=batch, faults=(f,), stutter=stutter)
                        yield Config(spec=spec, requested=req, batch=batch, died=(f,), stutter=stutter)


def fam_limits_special(nmax: int = 3, *, batch: int = 2, tnames=('TK', 'TL', 'TC1', 'TC2')) -> Iterator[Config]:
    """Limited types declared in unusual-but-legal ways (never cached *and* limited; the single-call
    decorator spelling; two types whose decorator arguments are identical down to the cache
    object), all nodes requested, with and without empty polls."""
    for n in range(2, nmax + 1):
        for shape in all_shapes(n):
            if sum(len(d) for d in shape) > 1:
                continue            # mostly independent tasks: that is where limits bite
            for types in itertools.product(tnames, repeat=n):
                spec = mk_spec(shape, types=types)
                req = tuple((i, False) for i in range(n))
                for st in (False, True):
                    yield Config(spec=spec, requested=req, batch=batch, stutter=st)


def fam_limits_warm(nmax: int = 3, *, batch: int = 2, tnames=('TB', 'TC')) -> Iterator[Config]:
    """Limited types against a warm cache, with and without bust_cache (loads and re-executions
    count towards the limit like any other execution)."""
    for n in range(2, nmax + 1):
        for shape in all_shapes(n):
            if any(shape):
                continue
            for types in itertools.product(tnames, repeat=n):
                spec = mk_spec(shape, types=types)
                req = tuple((i, False) for i in range(n))
                for pre in (tuple(range(n)), tuple(range(n - 1))):
                    for b in (False, True):
                        yield Config(spec=spec, requested=req, precached=pre, batch=batch, bust_cache=b, stutter=True)


def fam_types3(tnames=('TA', 'TN'), *, batch: int = 2) -> Iterator[Config]:
    """n = 3: every shape x every assignment of the given types (several distinct never-cached
    dependencies of one task, in particular), sinks requested."""
    for shape in all_shapes(3):
        if not any(shape):
            continue
        for types in itertools.product(tnames, repeat=3):
            if len(set(types)) == 1 and types[0] == 'TA':
                continue
            spec = mk_spec(shape, types=types)
            yield Config(spec=spec, requested=((2, False),), batch=batch)
            yield Config(spec=spec, requested=tuple((i, False) for i in range(3)), batch=batch)


def fam_post_init(nmax: int = 2, *, batch: int = 2) -> Iterator[Config]:
    """Task types whose post_init derives helpers that cannot be pickled (they are re-derived wherever
    the task goes)."""
    for n in range(1, nmax + 1):
        for shape in all_shapes(n):
            for types in itertools.product(('TP', 'TA'), repeat=n):
                if 'TP' not in types:
                    continue
                spec = mk_spec(shape, types=types)
                yield Config(spec=spec, requested=tuple((i, False) for i in range(n)), batch=batch)
                if n > 1:
                    yield Config(spec=spec, requested=((n - 1, False),), precached=(0,), batch=batch)


def fam_inherit(nmax: int = 3, *, batch: int = 2, faults: bool = False) -> Iterator[Config]:
    """Task types derived from other task types: TS derives from TB (max_parallel=1), adds the parameter
    that holds its dependencies, and is itself declared without a limit.  Base-type tasks come before,
    after and between derived ones."""
    for n in range(1, nmax + 1):
        for shape in all_shapes(n):
            for types in itertools.product(('TS', 'TB', 'TA'), repeat=n):
                if 'TS' not in types:
                    continue
                spec = mk_spec(shape, types=types)
                req = tuple((i, False) for i in range(n))
                yield Config(spec=spec, requested=req, batch=batch)
                if n > 1:
                    yield Config(spec=spec, requested=((n - 1, False),), batch=batch)
                    yield Config(spec=spec, requested=tuple(reversed(req)), batch=batch)
                    if any(shape):
                        yield Config(spec=spec, requested=req, precached=(0,), batch=batch)
                if faults and n > 1:
                    for f in range(n):
                        yield Config(spec=spec, requested=req, batch=batch, faults=(f,))


def fam_mlflow(nmax: int = 3, *, batch: int = 2) -> Iterator[Config]:
    """Task types declared with mlflow_run=True (TW), in-process runners only: fault-free; one TW task
    ending in SystemExit (every later TW task still gets its own run); and mlflow not installed at all,
    where every TW task that has to execute fails with labtech's own error and everything else carries on."""
    for n in range(1, nmax + 1):
        for shape in all_shapes(n):
            for types in itertools.product(('TW', 'TA'), repeat=n):
                if 'TW' not in types:
                    continue
                spec = mk_spec(shape, types=types)
                req = tuple((i, False) for i in range(n))
                tw = tuple(i for i in range(n) if types[i] == 'TW')
                yield Config(spec=spec, requested=req, batch=batch)
                for cof in (True, False):
                    yield Config(spec=spec, requested=req, batch=batch, faults=tw, fault_exc='mlflow-absent', cof=cof)
                    if n > 1:
                        yield Config(spec=spec, requested=((n - 1, False),), batch=batch, faults=tw, fault_exc='mlflow-absent', cof=cof)
                    for f in tw:
                        yield Config(spec=spec, requested=req, batch=batch, faults=(f,), fault_exc='exit', cof=cof)
                if n > 1 and any(shape):
                    yield Config(spec=spec, requested=req, batch=batch, precached=(0,), faults=tuple(i for i in tw if i != 0), fault_exc='mlflow-absent')


def fam_history(nmax: int = 2, *, batch: int = 2) -> Iterator[Config]:
    """The Lab object has already been through a failing Lab.run_task() call; then single faults under
    both continue_on_failure settings, and fault-free runs."""
    for n in range(1, nmax + 1):
        for shape in all_shapes(n):
            spec = mk_spec(shape)
            req = tuple((i, False) for i in range(n))
            for cof in (True, False):
                yield Config(spec=spec, requested=req, batch=batch, cof=cof, history='failed-run_task')
                for f in range(n):
                    yield Config(spec=spec, requested=req, batch=batch, cof=cof, faults=(f,), history='failed-run_task')


def fam_history_abort(nmax: int = 2, *, batch: int = 2) -> Iterator[Config]:
    """The Lab object (continue_on_failure=False) has been through a run_tasks call that a failure aborted
    while tasks of limited types were in flight; then tasks of those types."""
    for n in range(1, nmax + 1):
        for shape in all_shapes(n):
            for types in itertools.product(('TK', 'TM'), repeat=n):
                spec = mk_spec(shape, types=types)
                req = tuple((i, False) for i in range(n))
                yield Config(spec=spec, requested=req, batch=batch, cof=False, history='aborted-run_tasks')
    for types in (('TK', 'TK', 'TK'), ('TM', 'TK', 'TK'), ('TM', 'TM', 'TK')):
        yield Config(spec=mk_spec(((), (), ()), types=types), requested=tuple((i, False) for i in range(3)), batch=batch, cof=False, history='aborted-run_tasks')


def fam_none(nmax: int = 3, *, batch: int = 2) -> Iterator[Config]:
    """Tasks whose result is None (TZ) or an exception object that is returned, not raised (TE), requested
    and as dependencies, cold and pre-cached."""
    for n in range(1, nmax + 1):
        for shape in all_shapes(n):
            for types in itertools.product(('TZ', 'TA', 'TE') if n < 3 else ('TZ', 'TE'), repeat=n):
                if 'TZ' not in types and 'TE' not in types:
                    continue
                spec = mk_spec(shape, types=types)
                req = tuple((i, False) for i in range(n))
                yield Config(spec=spec, requested=req, batch=batch)
                if n > 1:
                    yield Config(spec=spec, requested=((n - 1, False),), batch=batch)
                    yield Config(spec=spec, requested=req, precached=(0,), batch=batch)
                    yield Config(spec=spec, requested=req, precached=tuple(range(n)), batch=batch)


def fam_corrupt(nmin: int = 2, nmax: int = 3, *, batch: int = 2) -> Iterator[Config]:
    """Warm caches in which the stored result of one entry is damaged (metadata intact): the entry looks
    cached, cannot be loaded - the task fails; it is not re-run behind the caller's back."""
    for n in range(nmin, nmax + 1):
        for shape in all_shapes(n):
            if not any(shape):
                continue
            spec = mk_spec(shape)
            for req in (tuple(range(n)), (n - 1,)):
                clo = sorted(closure(shape, req))
                for c in clo:
                    for pre in (tuple(clo), (c,)):
                        yield Config(spec=spec, requested=tuple((i, False) for i in req), precached=pre, corrupt=(c,), batch=batch)


def fam_e3(bases: Iterable[Config], *, backends=('fork', 'spawn'), workers=(1, 2, None), cpu_count: int = 2,
           die_exit0=(False,), liveness: bool = True, monitor: bool = False, linger: bool = False, queue_scale=None, prelude: bool = False):
    """Real ProcessRunner configurations over the virtual OS for the given base configurations."""
    from .e3 import E3Config
    for b in bases:
        for be in backends:
            for mw in workers:
                for dx in die_exit0:
                    if dx and not b.died:
                        continue
                    yield E3Config(base=b, backend=be, max_workers=mw, cpu_count=cpu_count, die_exit0=dx,
                                   liveness_choice=liveness, monitor=monitor, queue_scale=queue_scale, prelude=prelude)
                    if linger:
                        # each single node in turn leaves its worker process behind (it never exits)
                        for i in range(b.spec.n):
                            if i not in b.died:
                                yield E3Config(base=b, backend=be, max_workers=mw, cpu_count=cpu_count, die_exit0=dx,
                                               liveness_choice=liveness, monitor=monitor, linger=(i,))


def fam_real(bases: Iterable[Config], *, backends=('fork', 'spawn'), workers=(2,)):
    """(config, backend, max_workers) triples for real fork/spawn conformance runs (E4)."""
    for b in bases:
        for be in backends:
            for mw in workers:
                yield (b, be, mw)


def real_bases(kind: str = 'plain'):
    """A small fixed list of configurations exercised on the real process backends."""
    out = []
    shapes = [((), ()), ((), (0,)), ((), (), (0, 1)), ((), (0,), (0,), (1, 2))]
    for sh in shapes:
        n = len(sh)
        req = tuple((i, False) for i in range(n))
        if kind == 'plain':
            out.append(Config(spec=mk_spec(sh), requested=req))
            out.append(Config(spec=mk_spec(sh), requested=((n - 1, False),), precached=(0,)))
        elif kind == 'limits':
            out.append(Config(spec=mk_spec(sh, types=('TB',) * n), requested=req))
            out.append(Config(spec=mk_spec(sh, types=('TA', 'TC', 'TB', 'TA')[:n]), requested=req))
        elif kind == 'faults':
            out.append(Config(spec=mk_spec(sh), requested=req, faults=(0,)))
            out.append(Config(spec=mk_spec(sh), requested=req, died=(0,)))
            if n > 2:
                out.append(Config(spec=mk_spec(sh), requested=req, faults=(1,), died=(n - 1,)))
    return out


def thorough_extras(prop: str):
    """Families the quick tiers of the coordinator properties gained late (derived task types, post_init
    helpers, mlflow_run types, a measured call after an aborted call through the same backend object):
    the thorough tiers run them at the next larger bound.  Returns (e2 configs, serial configs, e3 configs)."""
    cf = list(fam_inherit(3, batch=3, faults=prop not in ('C01', 'C03')))
    se = list(fam_inherit(3, faults=prop not in ('C01', 'C03')))
    e3 = list(fam_e3(fam_inherit(2), workers=(1, 2), liveness=False))
    if prop in ('C01', 'C03'):
        cf += list(fam_post_init(3, batch=3))
        se += list(fam_post_init(3))
        e3 += list(fam_e3(fam_post_init(3), workers=(1, 2), liveness=False))
    if prop in ('C10', 'C11', 'C17'):
        cf += list(fam_mlflow(3, batch=3))
        se += list(fam_mlflow(3))
    if prop in ('C01', 'C02', 'C03', 'C17'):
        pre = [c for c in fam_shapes(2, 3, pre=False) if len(c.requested) == c.spec.n]
        e3 += list(fam_e3(pre, workers=(1, 2), liveness=False, prelude=True))
    return cf, se, e3
