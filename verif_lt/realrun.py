"""E4 helpers - running real labtech backends (fork/spawn) safely.

Every real ProcessRunner starts three multiprocessing.Manager() servers that
labtech never shuts down and that inherit the caller's pipes.  Real-backend
runs therefore happen in a child interpreter in its own session, with output
redirected to files, and the whole process group is killed afterwards.
"""
from __future__ import annotations

import json
import os
import signal
import subprocess
import sys
import tempfile
import time
from typing import Optional


def run_isolated(argv: list, *, env: Optional[dict] = None, timeout: float = 120.0, cwd: Optional[str] = None):
    """Run argv in its own session; returns (returncode | None on timeout, stdout text, stderr text)."""
    with tempfile.TemporaryDirectory(prefix='vrun_') as td:
        out_p, err_p = os.path.join(td, 'out'), os.path.join(td, 'err')
        with open(out_p, 'wb') as fo, open(err_p, 'wb') as fe:
            p = subprocess.Popen(argv, stdout=fo, stderr=fe, stdin=subprocess.DEVNULL, env=env, cwd=cwd,
                                 start_new_session=True)
            try:
                rc = p.wait(timeout=timeout)
            except subprocess.TimeoutExpired:
                rc = None
            finally:
                try:
                    os.killpg(p.pid, signal.SIGKILL)
                except (ProcessLookupError, PermissionError):
                    pass
                try:
                    p.wait(timeout=10)
                except subprocess.TimeoutExpired:
                    pass
        with open(out_p, 'r', errors='replace') as f:
            out = f.read()
        with open(err_p, 'r', errors='replace') as f:
            err = f.read()
    return rc, out, err


def py_env(seed: int = 0, **extra) -> dict:
    env = dict(os.environ)
    env['PYTHONHASHSEED'] = str(seed)
    env['PYTHONDONTWRITEBYTECODE'] = '1'
    env.update({k: str(v) for k, v in extra.items()})
    return env
