"""E4 (barriers) - real concurrency of the fork / spawn backends.

Tasks block inside run() on a barrier file; the driver watches the start records the task
bodies append to a file and releases tasks one at a time.  At every observation the number
of tasks inside run() must not exceed max_workers / max_parallel (C04); at every rest point
it must *reach* min(max_workers, runnable within the per-type limits) within a generous
time-out (C05 - start-up latency is not part of the property, so "not yet" only counts
when the time-out expires).
"""
from __future__ import annotations

import json
import os
import shutil
import signal
import subprocess
import sys
import tempfile
import time

from . import universe as U
from .common import HarnessError, silence_labtech
from .realrun import py_env
from .spec import mk_spec


def child_main(spec_json: str, backend: str, mw: str, storage_dir: str):
    silence_labtech()
    import labtech
    from .spec import Built
    d = json.loads(spec_json)
    phases = d['phases'] if 'phases' in d else [{'deps': d['deps'], 'types': d['types'], 'mw': mw, 'labels': None}]
    total = 0
    if d.get('shared_backend'):
        # one runner-backend object serves every Lab of the sequence
        from labtech.runners import ForkRunnerBackend, SpawnRunnerBackend
        backend = {'fork': ForkRunnerBackend, 'spawn': SpawnRunnerBackend}[backend]()
    for ph in phases:
        spec = mk_spec(ph['deps'], types=ph['types'], labels=ph.get('labels'))
        built = Built(spec)
        m = ph['mw']
        lab = labtech.Lab(storage=storage_dir, runner_backend=backend, max_workers=(None if m in (None, 'None') else int(m)), notebook=False)
        res = lab.run_tasks(list(built.canon), disable_progress=True, disable_top=True)
        total += len(res)
    print(json.dumps({'returned': total}))


def read_world(wf):
    started, blocked, ended = [], [], []
    try:
        with open(wf) as f:
            for l in f:
                if not l.endswith('\n'):
                    break
                e = json.loads(l)
                k = tuple(e[3]) if len(e) > 3 and isinstance(e[3], list) else None
                if e[2] == 'start':
                    started.append(k)
                elif e[2] == 'blocked':
                    blocked.append(k)
                elif e[2] == 'end':
                    ended.append(k)
    except FileNotFoundError:
        pass
    return started, blocked, ended


def barrier_case(args):
    if args[0] == 'sequence':
        return barrier_sequence_case(args)
    deps, types, backend, mw, order = args
    silence_labtech()
    spec = mk_spec(deps, types=types)
    n = spec.n
    eff = os.cpu_count() if mw is None else mw
    tmp = tempfile.mkdtemp(prefix='e4b_')
    bd = os.path.join(tmp, 'barrier')
    os.makedirs(bd)
    wf = os.path.join(tmp, 'world.log')
    open(wf, 'w').close()
    viols = []
    d = f'[real {backend} backend] deps={deps} types={types} max_workers={mw}'
    proc = subprocess.Popen([sys.executable, '-m', 'verif_lt.e4b', json.dumps({'deps': deps, 'types': types}), backend, str(mw), os.path.join(tmp, 'st')],
                            env=py_env(3, VERIF_WORLD_FILE=wf, VERIF_BARRIER_DIR=bd, VERIF_EPOCH=1),
                            stdout=open(os.path.join(tmp, 'out'), 'wb'), stderr=open(os.path.join(tmp, 'err'), 'wb'),
                            stdin=subprocess.DEVNULL, start_new_session=True)
    released: list = []
    max_inside = 0
    rest_points = 0
    try:
        def key(i):
            return (spec.types[i], spec.labels[i])

        def expected(ended_set):
            inside_or_ready = {}
            for i in range(n):
                k = key(i)
                if k in ended_set:
                    continue
                if all(key(j) in ended_set for j in spec.deps[i]):
                    inside_or_ready[k[0]] = inside_or_ready.get(k[0], 0) + 1
            tot = 0
            for t, c in inside_or_ready.items():
                mp = U.MAX_PARALLEL[t]
                tot += c if mp is None else min(mp, c)
            return min(eff, tot)

        t_end = time.monotonic() + 240
        while True:
            if time.monotonic() > t_end:
                viols.append(('C11', f'{backend}:real-barrier-run-timeout', f'{d}: the run did not finish within 240 s'))
                break
            started, blocked, ended = read_world(wf)
            ended_set = set(ended)
            if len(ended_set) == n:
                break
            want = expected(ended_set)
            # wait for the rest point: `want` tasks blocked inside run()
            deadline = time.monotonic() + 30
            reached = False
            while time.monotonic() < deadline:
                started, blocked, ended = read_world(wf)
                inside = [k for k in blocked if k not in set(ended)]
                max_inside = max(max_inside, len(inside))
                if len(inside) > eff:
                    viols.append(('C04', f'{backend}:real-barrier-max-workers', f'{d}: {len(inside)} tasks inside run() at once: {inside}'))
                    deadline = 0
                    break
                for t in set(k[0] for k in inside):
                    mp = U.MAX_PARALLEL[t]
                    c = sum(1 for k in inside if k[0] == t)
                    if mp is not None and c > mp:
                        viols.append(('C04', f'{backend}:real-barrier-type-limit', f'{d}: {c} tasks of type {t} inside run() at once, max_parallel={mp}'))
                        deadline = 0
                if len(inside) >= want:
                    reached = True
                    break
                if proc.poll() is not None:
                    break
                time.sleep(0.01)
            if deadline == 0:
                break
            if not reached:
                if proc.poll() is not None:
                    err = open(os.path.join(tmp, 'err')).read()[-600:]
                    raise HarnessError(f'barrier child exited early ({proc.returncode}): {err}')
                viols.append(('C05', f'{backend}:real-barrier-rest-below-capacity',
                              f'{d}: only {len(inside)} tasks are inside run() 30 s after the last release, min(max_workers, runnable within type limits)={want}; inside={inside}'))
                break
            rest_points += 1
            # stay at rest a little and re-check the upper bound, then release one task
            time.sleep(0.05)
            started, blocked, ended = read_world(wf)
            inside = [k for k in blocked if k not in set(ended)]
            if len(inside) > want:
                viols.append(('C04', f'{backend}:real-barrier-over-capacity', f'{d}: {len(inside)} tasks inside run() at rest, expected {want}'))
                break
            cands = sorted(inside, key=lambda k: k[1], reverse=(order == 'desc'))
            k = cands[0]
            released.append(k)
            open(os.path.join(bd, f'go_{k[1]}'), 'w').close()
            # wait for it to leave run()
            dl = time.monotonic() + 30
            while time.monotonic() < dl and k not in set(read_world(wf)[2]):
                time.sleep(0.005)
        if not viols:
            try:
                proc.wait(timeout=60)
            except subprocess.TimeoutExpired:
                viols.append(('C11', f'{backend}:real-barrier-run-timeout', f'{d}: run_tasks did not return within 60 s of the last task finishing'))
        return {'viols': viols, 'max_inside': max_inside, 'rest_points': rest_points, 'released': released}
    finally:
        try:
            os.killpg(proc.pid, signal.SIGKILL)
        except (ProcessLookupError, PermissionError):
            pass
        try:
            proc.wait(timeout=10)
        except Exception:  # noqa
            pass
        shutil.rmtree(tmp, ignore_errors=True)


def barrier_sequence_case(args):
    """Several Labs with different max_workers used one after the other in ONE caller process
    (same backend): each run must respect its own limit."""
    _, backend, mws = args[:3]
    shared = len(args) > 3 and args[3] == 'shared'
    silence_labtech()
    n = 4
    phases = [{'deps': [[] for _ in range(n)], 'types': ['TA'] * n, 'mw': mw, 'labels': [100 * i + j for j in range(n)]} for i, mw in enumerate(mws)]
    tmp = tempfile.mkdtemp(prefix='e4bs_')
    bd = os.path.join(tmp, 'barrier')
    os.makedirs(bd)
    wf = os.path.join(tmp, 'world.log')
    open(wf, 'w').close()
    viols = []
    d = f'[real {backend} backend] Labs with max_workers={list(mws)} used one after the other in one process' + (' (one shared backend object)' if shared else '')
    proc = subprocess.Popen([sys.executable, '-m', 'verif_lt.e4b', json.dumps({'phases': phases, 'shared_backend': shared}), backend, 'x', os.path.join(tmp, 'st')],
                            env=py_env(3, VERIF_WORLD_FILE=wf, VERIF_BARRIER_DIR=bd, VERIF_EPOCH=1),
                            stdout=open(os.path.join(tmp, 'out'), 'wb'), stderr=open(os.path.join(tmp, 'err'), 'wb'),
                            stdin=subprocess.DEVNULL, start_new_session=True)
    max_inside = rest_points = 0
    released = []
    try:
        for i, mw in enumerate(mws):
            labels = set(phases[i]['labels'])
            done = 0
            while done < n:
                want = min(mw, n - done)
                deadline = time.monotonic() + 30
                reached = False
                inside = []
                while time.monotonic() < deadline:
                    _, blocked, ended = read_world(wf)
                    inside = [k for k in blocked if k[1] in labels and k not in set(ended)]
                    max_inside = max(max_inside, len(inside))
                    if len(inside) > mw:
                        viols.append(('C04', f'{backend}:real-sequence-max-workers', f'{d}: run #{i + 1} (max_workers={mw}) has {len(inside)} tasks inside run() at once'))
                        return {'viols': viols, 'max_inside': max_inside, 'rest_points': rest_points, 'released': released}
                    if len(inside) >= want:
                        reached = True
                        break
                    if proc.poll() is not None:
                        break
                    time.sleep(0.01)
                if not reached:
                    if proc.poll() is not None:
                        raise HarnessError(f'barrier sequence child exited early: {open(os.path.join(tmp, "err")).read()[-500:]}')
                    viols.append(('C05', f'{backend}:real-sequence-rest-below-capacity', f'{d}: run #{i + 1} (max_workers={mw}) keeps only {len(inside)} tasks inside run(), expected {want}'))
                    return {'viols': viols, 'max_inside': max_inside, 'rest_points': rest_points, 'released': released}
                rest_points += 1
                time.sleep(0.05)
                _, blocked, ended = read_world(wf)
                inside = [k for k in blocked if k[1] in labels and k not in set(ended)]
                if len(inside) > mw:
                    viols.append(('C04', f'{backend}:real-sequence-max-workers', f'{d}: run #{i + 1} (max_workers={mw}) has {len(inside)} tasks inside run() at rest'))
                    return {'viols': viols, 'max_inside': max_inside, 'rest_points': rest_points, 'released': released}
                k = sorted(inside, key=lambda kk: kk[1])[0]
                released.append(k)
                open(os.path.join(bd, f'go_{k[1]}'), 'w').close()
                dl = time.monotonic() + 30
                while time.monotonic() < dl and k not in set(read_world(wf)[2]):
                    time.sleep(0.005)
                done += 1
        try:
            proc.wait(timeout=60)
        except subprocess.TimeoutExpired:
            viols.append(('C11', f'{backend}:real-barrier-run-timeout', f'{d}: did not finish'))
        return {'viols': viols, 'max_inside': max_inside, 'rest_points': rest_points, 'released': released}
    finally:
        try:
            os.killpg(proc.pid, signal.SIGKILL)
        except (ProcessLookupError, PermissionError):
            pass
        try:
            proc.wait(timeout=10)
        except Exception:  # noqa
            pass
        shutil.rmtree(tmp, ignore_errors=True)


def cases(tier: str):
    out = []
    ind5 = ((),) * 5
    shapes = [
        (ind5, ('TA',) * 5), (ind5, ('TB', 'TB', 'TC', 'TC', 'TC')), (ind5, ('TA', 'TB', 'TB', 'TC', 'TD')),
        (((), (), (0,), (0, 1), ()), ('TA', 'TB', 'TB', 'TA', 'TC')),
    ]
    for deps, types in shapes:
        for be in ('fork', 'spawn'):
            for mw in ((1, 2, 3) if tier != 'quick' else (2, 3)):
                out.append((deps, types, be, mw, 'asc'))
            if tier != 'quick':
                out.append((deps, types, be, 2, 'desc'))
    ncpu = os.cpu_count() or 2
    big = ((),) * (ncpu + 3)
    for be in ('fork', 'spawn'):
        out.append((big, ('TA',) * (ncpu + 3), be, None, 'asc'))
        out.append(('sequence', be, (3, 1, 2)))
    out.append(('sequence', 'fork', (1, 3), 'shared'))
    out.append(('sequence', 'spawn', (2, 1), 'shared'))
    # an explicit max_workers above the number of cores must be honoured too
    out.append((((),) * (ncpu + 2), ('TA',) * (ncpu + 2), 'fork', ncpu + 2, 'asc'))
    return out


if __name__ == '__main__':
    child_main(*sys.argv[1:5])


# ---------------------------------------------------------------------------
# Real SIGINT delivery (C14): Ctrl-C goes to the whole foreground process group

def sigint_child_main(backend: str, mw: str, n: str, storage_dir: str):
    # a check started as a background job of a non-interactive shell inherits SIGINT = ignored,
    # and Python then never installs its KeyboardInterrupt handler: establish the disposition an
    # interactive caller has (otherwise the signal is simply dropped and the run never ends)
    signal.signal(signal.SIGINT, signal.default_int_handler)
    silence_labtech()
    import labtech
    from .spec import Built
    n = int(n)
    spec = mk_spec([[] for _ in range(n)], types=['TA'] * n)
    built = Built(spec)
    lab = labtech.Lab(storage=storage_dir, runner_backend=backend, max_workers=int(mw), notebook=False)
    try:
        res = lab.run_tasks(list(built.canon), disable_progress=True, disable_top=True)
        print(json.dumps({'outcome': 'return', 'n': len(res)}), flush=True)
    except KeyboardInterrupt:
        print(json.dumps({'outcome': 'KeyboardInterrupt'}), flush=True)
    except BaseException as e:  # noqa
        print(json.dumps({'outcome': f'{type(e).__name__}: {e}'}), flush=True)


def sigint_case(args):
    """args = (backend, max_workers, n_tasks, double)"""
    backend, mw, n, double = args
    silence_labtech()
    import labtech
    from .spec import Built
    tmp = tempfile.mkdtemp(prefix='e4s_')
    bd = os.path.join(tmp, 'barrier')
    os.makedirs(bd)
    wf = os.path.join(tmp, 'world.log')
    open(wf, 'w').close()
    st = os.path.join(tmp, 'st')
    viols = []
    d = f'[real {backend} backend, real SIGINT to the process group] {n} independent tasks, max_workers={mw}, {"double" if double else "single"} interrupt'
    proc = subprocess.Popen([sys.executable, '-c', 'import sys; from verif_lt.e4b import sigint_child_main; sigint_child_main(*sys.argv[1:5])',
                             backend, str(mw), str(n), st],
                            env=py_env(3, VERIF_WORLD_FILE=wf, VERIF_BARRIER_DIR=bd, VERIF_EPOCH=1, VERIF_RECORD_ENV=1),
                            stdout=open(os.path.join(tmp, 'out'), 'wb'), stderr=open(os.path.join(tmp, 'err'), 'wb'),
                            stdin=subprocess.DEVNULL, start_new_session=True)
    try:
        deadline = time.monotonic() + 60
        while time.monotonic() < deadline and len(read_world(wf)[1]) < mw:
            if proc.poll() is not None:
                raise HarnessError(f'sigint child exited early: {open(os.path.join(tmp, "err")).read()[-500:]}')
            time.sleep(0.01)
        executing = list(read_world(wf)[1])
        if len(executing) < mw:
            raise HarnessError(f'{d}: workers did not start within 60 s')
        # worker pids, from the environment records
        pids = {}
        for l in open(wf):
            e = json.loads(l)
            if e[2] == 'env':
                pids[tuple(e[3])] = e[4]
        time.sleep(0.2)      # let the coordinator settle in its polling loop
        os.killpg(proc.pid, signal.SIGINT)
        time.sleep(0.7)
        started_after = [k for k in read_world(wf)[0] if k not in executing]
        if started_after:
            viols.append(('C14', f'{backend}:real-sigint-started-after-interrupt', f'{d}: tasks {started_after} were started after the interrupt'))
        dead = [k for k, p in pids.items() if not _alive(p)]
        if not double:
            if dead:
                viols.append(('C14', f'{backend}:real-sigint-worker-died', f'{d}: workers executing {dead} died at the first interrupt instead of being allowed to finish'))
            if proc.poll() is not None:
                viols.append(('C14', f'{backend}:real-sigint-did-not-wait', f'{d}: run_tasks ended while tasks were still executing'))
            for k in executing:
                open(os.path.join(bd, f'go_{k[1]}'), 'w').close()
            try:
                proc.wait(timeout=60)
            except subprocess.TimeoutExpired:
                viols.append(('C14', f'{backend}:real-sigint-hang', f'{d}: run_tasks did not end within 60 s after the executing tasks finished'))
                return {'viols': viols}
        else:
            os.killpg(proc.pid, signal.SIGINT)
            try:
                proc.wait(timeout=30)
            except subprocess.TimeoutExpired:
                viols.append(('C14', f'{backend}:real-double-sigint-waits', f'{d}: run_tasks still waits 30 s after the second interrupt (the executing tasks never finish)'))
                return {'viols': viols}
            time.sleep(0.3)
            alive = [k for k, p in pids.items() if _alive(p)]
            if alive:
                viols.append(('C14', f'{backend}:real-double-sigint-not-terminated', f'{d}: workers executing {alive} are still alive after the second interrupt'))
        out = open(os.path.join(tmp, 'out')).read().strip().splitlines()
        outcome = json.loads(out[-1])['outcome'] if out else f'no output (exit {proc.returncode})'
        if outcome != 'KeyboardInterrupt':
            viols.append(('C14', f'{backend}:real-sigint-wrong-outcome', f'{d}: run_tasks ended with {outcome!r} instead of KeyboardInterrupt'))
        started_total = read_world(wf)[0]
        if len(started_total) > len(executing):
            viols.append(('C14', f'{backend}:real-sigint-started-after-interrupt', f'{d}: {len(started_total)} tasks started in total, {len(executing)} were executing at the interrupt'))
        if not double:
            spec = mk_spec([[] for _ in range(n)], types=['TA'] * n)
            built = Built(spec)
            lab = labtech.Lab(storage=st, runner_backend='serial', notebook=False)
            for k in executing:
                t = built.canon[k[1]]
                if not lab.is_cached(t):
                    viols.append(('C14', f'{backend}:real-sigint-executing-not-cached', f'{d}: {k} was executing at the interrupt but its result is not cached'))
        return {'viols': viols}
    finally:
        try:
            os.killpg(proc.pid, signal.SIGKILL)
        except (ProcessLookupError, PermissionError):
            pass
        try:
            proc.wait(timeout=10)
        except Exception:  # noqa
            pass
        shutil.rmtree(tmp, ignore_errors=True)


def _alive(pid: int) -> bool:
    try:
        with open(f'/proc/{pid}/stat') as f:
            return f.read().split(') ')[-1].split()[0] != 'Z'
    except OSError:
        return False


def sigint_cases(tier: str):
    out = []
    for be in ('fork', 'spawn'):
        for double in (False, True):
            out.append((be, 2, 4, double))
            if tier != 'quick':
                out.append((be, 1, 3, double))
                out.append((be, 3, 3, double))
    return out
