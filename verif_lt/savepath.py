"""Shared pieces of the save-path properties C12 (failed save) and C13 (killed save)."""
from __future__ import annotations

import os
import shutil
import tempfile
from datetime import datetime

import labtech
import labtech.cache
from labtech.storage import LocalStorage

from . import dtypes as A
from .universe import WORLD

CASES = {
    # name: (type, kind, n)
    'pickle-small': (A.Saver, 'small', 3),
    'pickle-multi': (A.Saver, 'multi', 200),
    'pickle-blob': (A.Saver, 'blob', 300),
    'json-small': (A.JSaver, 'small', 3),
    'pickle-nonascii': (A.USaver, 'small', 3),
    'json2-small': (A.MSaver, 'small', 3),
    'json2-multi': (A.MSaver, 'multi', 40),
    'json-multi': (A.JSaver, 'multi', 40),
    'two-multi': (A.TSaver, 'multi', 40),      # result kept in two files
    'pickle-unpicklable0': (A.Saver, 'unpicklable0', 0),
    'pickle-unpicklable1': (A.Saver, 'unpicklable1', 0),
    'pickle-unpicklable-deep': (A.Saver, 'unpicklable-deep', 200),
    'json-unserialisable': (A.JSaver, 'unpicklable1', 0),
}


class AltPickleCache(labtech.cache.PickleCache):
    """Another cache class with PickleCache's key prefix and file names (what a user gets who
    subclasses PickleCache to fix a pickle protocol, say): its entries share keys with PickleCache's."""


ALT = AltPickleCache()


class cache_class:
    """Configure the task type of a case with another cache object for the duration
    (the decorator argument of the type was edited / another branch was checked out)."""

    def __init__(self, case: str, cache):
        self.cls, self.cache = CASES[case][0], cache

    def __enter__(self):
        import dataclasses
        self.orig = self.cls._lt
        if self.cache is not None:
            self.cls._lt = dataclasses.replace(self.orig, cache=self.cache)

    def __exit__(self, *exc):
        self.cls._lt = self.orig


def mk_task(case: str):
    cls, kind, n = CASES[case]
    return cls(kind=kind, n=n)


def value_of(case: str, epoch: int):
    cls, kind, n = CASES[case]
    return ('R', cls.__qualname__, kind, n, epoch, A._result_payload(kind, n, epoch))


def tmpdir(prefix: str) -> str:
    base = '/dev/shm' if os.path.isdir('/dev/shm') and os.access('/dev/shm', os.W_OK) else None
    return tempfile.mkdtemp(prefix=prefix, dir=base)


class FixedClock(datetime):
    """datetime stand-in patched into labtech.runners.base: start/end of FIXED_META."""
    script: list = []

    @classmethod
    def now(cls, tz=None):
        return cls.script.pop(0)


def good_run(storage_dir: str, case: str, epoch: int, bust=False):
    """A normal successful run through the serial backend (with the clock fixed so that
    the stored metadata is byte-for-byte reproducible)."""
    import labtech.runners.base as lt_base
    from .spec import FIXED_META
    WORLD.reset(epoch=epoch)
    lab = labtech.Lab(storage=LocalStorage(storage_dir), runner_backend='serial', notebook=False)
    t = mk_task(case)
    orig = lt_base.datetime
    lt_base.datetime = FixedClock
    FixedClock.script = [FIXED_META.start, FIXED_META.start + FIXED_META.duration]
    try:
        res = lab.run_tasks([t], bust_cache=bust, disable_progress=True, disable_top=True)
    finally:
        lt_base.datetime = orig
    return res.get(t)


def recovery(storage_dir: str, case: str, ok_values: list, observer_cache=None):
    """The recovery oracle: on a fresh Lab over whatever was left behind.
    Returns a list of (clause, message, reported_cached).  observer_cache: the observing
    session has the task type configured with that cache object."""
    with cache_class(case, observer_cache):
        return _recovery(storage_dir, case, ok_values)


def _recovery(storage_dir: str, case: str, ok_values: list):
    out = []
    WORLD.reset(epoch=50)
    lab = labtech.Lab(storage=LocalStorage(storage_dir, with_gitignore=False), runner_backend='serial', notebook=False)
    t = mk_task(case)
    try:
        cached = bool(lab.is_cached(t))
    except BaseException as e:  # noqa
        out.append(('is_cached-raised', f'is_cached raised {type(e).__name__}: {e}'))
        cached = False
    listed = False
    try:
        ct = lab.cached_tasks([type(t)])
        listed = any(x == t for x in ct)
    except BaseException as e:  # noqa
        out.append(('cached_tasks-raised', f'cached_tasks raised {type(e).__name__}: {e}'))
    if cached or listed:
        who = '+'.join(n for n, f in (('is_cached', cached), ('cached_tasks', listed)) if f)
        lab2 = labtech.Lab(storage=LocalStorage(storage_dir, with_gitignore=False), runner_backend='serial', notebook=False)
        t2 = mk_task(case)
        WORLD.reset(epoch=51)
        try:
            res = lab2.run_tasks([t2], disable_progress=True, disable_top=True)
        except BaseException as e:  # noqa
            out.append(('reported-cached-but-run-raised', f'reported by {who}; run_tasks raised {type(e).__name__}: {e}'))
            return out, True
        executed = any(ev[0] == 'start' for ev in WORLD.log)
        if t2 not in res:
            out.append(('reported-cached-but-unloadable', f'reported by {who} but the entry cannot be loaded'))
        elif executed and cached:
            out.append(('reported-cached-but-executed', f'reported by {who} but run() was executed again'))
        elif not executed and not any(res[t2] == v for v in ok_values):
            out.append(('reported-cached-but-wrong-value', f'reported by {who}; loaded {str(res[t2])[:120]!r}'))
        return out, True
    # not reported as cached: then a later run simply has to produce the result (by executing the
    # task again) - an entry that is "not cached" for is_cached but still makes later runs fail is
    # exactly the poisoning the properties exclude.  Done on a copy, the directory itself is left as found.
    if CASES[case][1] in ('small', 'multi', 'blob'):
        cp = tmpdir('rerun_')
        try:
            shutil.rmtree(cp)
            shutil.copytree(storage_dir, cp, symlinks=True)
            lab3 = labtech.Lab(storage=LocalStorage(cp, with_gitignore=False), runner_backend='serial', notebook=False)
            t3 = mk_task(case)
            WORLD.reset(epoch=52)
            try:
                res3 = lab3.run_tasks([t3], disable_progress=True, disable_top=True)
            except BaseException as e:  # noqa
                out.append(('not-cached-but-later-run-raised', f'not reported as cached, yet a later run_tasks raised {type(e).__name__}: {e}'))
                return out, False
            if t3 not in res3:
                out.append(('not-cached-but-later-run-fails', 'not reported as cached, yet a later run_tasks fails to produce the result'))
            elif res3[t3] != value_of(case, 52) and not any(res3[t3] == v for v in ok_values):
                out.append(('not-cached-but-later-run-wrong-value', f'not reported as cached; a later run returned {str(res3[t3])[:120]!r}'))
        finally:
            shutil.rmtree(cp, ignore_errors=True)
    return out, False
