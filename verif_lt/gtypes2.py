"""More task types for the diagram property (C20).  Deliberately WITHOUT postponed evaluation of
annotations: the hints are real typing objects, several of which are equal (==, same hash) to one
another although they are spelled - and printed - differently."""
from typing import Any, Optional, Union

import labtech


@labtech.task
class GF:
    a: Optional[float] = None
    b: float | None = None
    c: Union[int, str] = 0
    d: Union[str, int] = 0
    dep: Any = None

    def run(self) -> Optional[int]:
        return None


@labtech.task
class GG:
    b: float | None = None
    a: Optional[float] = None
    d: Union[str, int] = 0
    c: Union[int, str] = 0
    dep: Any = None

    def run(self) -> int | None:
        return None
