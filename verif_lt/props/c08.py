"""C08 - cache contents evolve exactly as run, bust_cache and uncache dictate.

E7: breadth-first search over histories of public Lab operations from the empty
storage against a plain-dict reference model; states de-duplicated on a
canonical form (model + complete storage listing with epochs renamed by order
of appearance).  Every state is rebuilt by replaying its history on a fresh
storage + fresh Lab objects.
"""
from __future__ import annotations

import copy
import itertools
import json
import os
import shutil
import tempfile

import labtech

from .. import universe as U
from ..common import HarnessError, Result, Violation, pmap, silence_labtech
from ..storages import LocalFsspecStorage, LocalStorage, MemFsspecStorage, MemStorage

# node: (label, dependency node or None, type slot) ; type slot 'K' = the cache kind under test, 'N' = cache=None
NODES = [(1, None, 'K'), (2, None, 'K'), (3, None, 'N'), (4, 0, 'K'), (5, 2, 'K')]


def subsets():
    idx = range(len(NODES))
    return [(i,) for i in idx] + list(itertools.combinations(idx, 2))


def all_ops():
    ops = []
    for s in subsets():
        ops.append(('run', s, False))
        ops.append(('run', s, True))
        ops.append(('uncache', s))
    # re-executions that fail: nothing but successful executions may change the cache
    for i in range(len(NODES)):
        for bust in (False, True):
            ops.append(('runfail', (i,), bust, i))
    ops.append(('runfail', (3,), True, 0))
    ops.append(('runfail', (3, 1), True, 0))
    return ops


def build_tasks(kind: str):
    K, N = U.TYPES[kind], U.TN
    out = []
    for label, dep, slot in NODES:
        cls = K if slot == 'K' else N
        out.append(cls(label=label, d0=(out[dep] if dep is not None else None)))
    # fresh objects per use: rebuild dependencies as fresh equal instances
    return out


def tname(kind, i):
    return kind if NODES[i][2] == 'K' else 'TN'


class Model:
    """Plain map node -> stored value."""

    def __init__(self, kind, persistent=True):
        self.kind = kind
        self.d: dict = {}
        self.persistent = persistent

    def run(self, req, bust, epoch, failing=()):
        served = set() if bust else set(self.d)
        needed, values = set(), {}
        failed = set()

        def need(i):
            if i in needed:
                return
            needed.add(i)
            if i not in served and NODES[i][1] is not None:
                need(NODES[i][1])
        for i in req:
            need(i)
        executed = []
        for i in sorted(needed):
            if i in served:
                values[i] = self.d[i]
            else:
                dep = NODES[i][1]
                executed.append(i)
                if i in failing or (dep is not None and dep in failed):
                    failed.add(i)
                    continue
                dv = (values[dep],) if dep is not None else ()
                values[i] = ('N', tname(self.kind, i), NODES[i][0], (), dv, epoch)
        for i in executed:
            if i not in failed and NODES[i][2] == 'K' and self.persistent:
                self.d[i] = values[i]
        return {i: values[i] for i in req if i in values}, executed

    def uncache(self, req):
        for i in req:
            self.d.pop(i, None)


def make_storage(skind):
    if skind == 'mem':
        return MemStorage(), None
    if skind == 'null':
        return None, None
    if skind == 'fsmem':
        return MemFsspecStorage(), None
    tmp = tempfile.mkdtemp(prefix='c08_')
    if skind in ('local-rel', 'fsspec-rel'):
        # the storage directory is given as a relative path (the form the README uses) and the
        # caller's working directory changes between the operations of the history
        for w in ('work0', 'work1'):
            os.mkdir(os.path.join(tmp, w))
        os.chdir(tmp)
        return (LocalStorage('store') if skind == 'local-rel' else LocalFsspecStorage('store')), tmp
    return (LocalStorage(tmp) if skind == 'local' else LocalFsspecStorage(tmp)), tmp


def copy_storage(skind, storage, tmp):
    if skind == 'mem':
        c = MemStorage()
        c.d = copy.deepcopy(storage.d)
        return c, None
    if skind == 'null':
        return None, None
    if skind == 'fsmem':
        return storage.clone(), None
    t2 = tempfile.mkdtemp(prefix='c08c_')
    shutil.rmtree(t2)
    if skind.endswith('-rel'):
        shutil.copytree(os.path.join(tmp, 'store'), t2, symlinks=True)
        return (LocalStorage(t2) if skind == 'local-rel' else LocalFsspecStorage(t2)), t2
    shutil.copytree(tmp, t2, symlinks=True)
    return (LocalStorage(t2) if skind == 'local' else LocalFsspecStorage(t2)), t2


def second_handle(skind, storage, tmp):
    """Another storage object for the same place."""
    if skind == 'mem':
        c = MemStorage()
        c.d = storage.d
        return c
    if skind == 'fsmem':
        c = MemFsspecStorage.__new__(MemFsspecStorage)
        labtech.storage.FsspecStorage.__init__(c, str(storage._storage_path))
        return c
    if skind == 'null':
        return None
    if skind.endswith('-rel'):
        return LocalStorage(os.path.join(tmp, 'store')) if skind == 'local-rel' else LocalFsspecStorage(os.path.join(tmp, 'store'))
    return LocalStorage(tmp) if skind == 'local' else LocalFsspecStorage(tmp)


def listing(skind, storage):
    if skind == 'null':
        return []
    return sorted(storage.find_keys())


def replay_history(cfg, hist, check_last_only=True):
    """Replays `hist`; returns (violations, canonical state)."""
    skind, kind = cfg[0], cfg[1]
    mode = cfg[2] if len(cfg) > 2 else None
    reuse_lab = mode == 'one-lab'
    # 'same-tasks': the very same task objects serve the whole history (whatever an operation leaves on
    # them - result_meta, a results map - is there for the next one).
    # 'observer': every operation goes through a fresh Lab over its *own* storage object for the same
    # place, while one long-lived Lab + storage object only observes (after every step) - state kept
    # inside a storage / cache / Lab object that another object's writes do not refresh would show.
    silence_labtech()
    cwd0 = os.getcwd()
    storage, tmp = make_storage(skind)
    shared_lab = labtech.Lab(storage=storage, runner_backend='serial', notebook=False) if reuse_lab else None
    fixed_tasks = build_tasks(kind) if mode == 'same-tasks' else None
    observer_lab = labtech.Lab(storage=storage, runner_backend='serial', notebook=False) if mode == 'observer' else None
    model = Model(kind, persistent=(skind != 'null'))
    viols = []
    extra_keys = 0
    try:
        for step, op in enumerate(hist):
            epoch = step + 1
            if skind.endswith('-rel'):
                os.chdir(os.path.join(tmp, f'work{step % 2}'))
            failing = (op[3],) if op[0] == 'runfail' else ()
            U.WORLD.reset(epoch=epoch, faults=[NODES[i][0] for i in failing])
            tasks = fixed_tasks or build_tasks(kind)
            lab = shared_lab or labtech.Lab(storage=(second_handle(skind, storage, tmp) if mode == 'observer' else storage),
                                            runner_backend='serial', notebook=False)
            last = (step == len(hist) - 1)
            d = f'cfg={cfg} history={hist[:step + 1]}'
            try:
                if op[0] in ('run', 'runfail'):
                    want, want_exec = model.run(op[1], op[2], epoch, failing)
                    got = lab.run_tasks([tasks[i] for i in op[1]], **({'bust_cache': True} if op[2] else {}), disable_progress=True, disable_top=True)     # an ordinary call does not mention bust_cache
                    if last:
                        gotd = {i: got[tasks[i]] for i in op[1] if tasks[i] in got}
                        if gotd != want:
                            viols.append(('return-mismatch', f'{d}: returned {gotd} model {want}'))
                        ran = sorted(ev[1][1] for ev in U.WORLD.log if ev[0] == 'start')
                        if ran != sorted(NODES[i][0] for i in want_exec):
                            viols.append(('executed-set-mismatch', f'{d}: executed labels {ran}, model {sorted(NODES[i][0] for i in want_exec)}'))
                else:
                    model.uncache(op[1])
                    lab.uncache_tasks([tasks[i] for i in op[1]])
            except BaseException as e:  # noqa
                if last:
                    viols.append((f'op-raised:{type(e).__name__}', f'{d}: {type(e).__name__}: {e}'))
                return viols, None
            if observer_lab is not None and not last:
                # the observer looks after every step (its answers are only judged at the end)
                try:
                    observer_lab.cached_tasks([U.TYPES[kind], U.TN])
                    [observer_lab.is_cached(t) for t in build_tasks(kind)]
                except BaseException:  # noqa
                    pass
            if not last and check_last_only:
                continue
            # observers (on the same Lab object when the configuration reuses one Lab for the whole history)
            tasks = build_tasks(kind)
            lab = shared_lab or observer_lab or labtech.Lab(storage=storage, runner_backend='serial', notebook=False)
            cached = [lab.is_cached(t) for t in tasks]
            wantc = [i in model.d for i in range(len(NODES))]
            if cached != wantc:
                viols.append(('is_cached-mismatch', f'{d}: is_cached {cached} model {wantc}'))
            try:
                keys = listing(skind, storage)
            except BaseException as e:  # noqa
                viols.append((f'find_keys-raised:{type(e).__name__}', f'{d}: Storage.find_keys raised {type(e).__name__}: {e}'))
                keys = sorted(tasks[i].cache_key for i in model.d)
            wkeys = sorted(tasks[i].cache_key for i in model.d)
            # The model's entries must be there.  Extra keys are only a violation of the statement
            # when they are observable through the Lab (is_cached / cached_tasks / read-back, checked
            # separately) or belong to something that must never persist (cache=None type, storage=None).
            missing = [k for k in wkeys if k not in keys]
            if missing:
                viols.append(('listing-mismatch', f'{d}: storage lists {keys}, model has {wkeys}'))
            if 'null' in keys:
                viols.append(('nullcache-persisted', f'{d}: an entry was written for a cache=None task: {keys}'))
            extra_keys += len([k for k in keys if k not in wkeys])
            for tl in ([U.TYPES[kind]], [U.TN], [U.TN, U.TYPES[kind]], [U.TYPES[kind], U.TA, U.TJ]):
                try:
                    ct = lab.cached_tasks(tl)
                except BaseException as e:  # noqa
                    viols.append((f'cached_tasks-raised:{type(e).__name__}', f'{d}: cached_tasks({[t.__name__ for t in tl]}) raised {e}'))
                    continue
                gotl = sorted((type(t).__name__, t.label) for t in ct)
                wantl = sorted((tname(kind, i), NODES[i][0]) for i in model.d if U.TYPES[tname(kind, i)] in tl)
                if gotl != wantl:
                    viols.append(('cached_tasks-mismatch', f'{d}: cached_tasks({[t.__name__ for t in tl]}) = {gotl}, model {wantl}'))
            # read-back on a copy
            cstore, ctmp = copy_storage(skind, storage, tmp)
            try:
                U.WORLD.reset(epoch=99)
                t3 = build_tasks(kind)
                lab3 = labtech.Lab(storage=cstore, runner_backend='serial', notebook=False)
                m3 = Model(kind, persistent=(skind != 'null'))
                m3.d = dict(model.d)
                want3, _ = m3.run(tuple(range(len(NODES))), False, 99)
                got3 = lab3.run_tasks(t3, disable_progress=True, disable_top=True)
                g3 = {i: got3.get(t3[i], '<missing>') for i in range(len(NODES))}
                if g3 != want3:
                    viols.append(('readback-mismatch', f'{d}: reading everything back gives {g3}, model {want3}'))
            except BaseException as e:  # noqa
                viols.append((f'readback-raised:{type(e).__name__}', f'{d}: read-back raised {type(e).__name__}: {e}'))
            finally:
                if isinstance(cstore, MemStorage):
                    cstore.release()
                if isinstance(cstore, MemFsspecStorage):
                    cstore.destroy()
                if ctmp:
                    shutil.rmtree(ctmp, ignore_errors=True)
        try:
            final_keys = listing(skind, storage) if skind != 'null' else []
        except BaseException:  # noqa  (already reported above)
            final_keys = sorted(str(i) for i in model.d)
        canon = canonical(model, final_keys)
        return viols, canon
    finally:
        os.chdir(cwd0)
        if isinstance(storage, MemStorage):
            storage.release()
        if isinstance(storage, MemFsspecStorage):
            storage.destroy()
        if tmp:
            shutil.rmtree(tmp, ignore_errors=True)


def canonical(model: Model, keys):
    """Model contents with epochs renamed by order of first appearance + storage listing."""
    ren: dict = {}

    def r(v):
        if isinstance(v, tuple) and len(v) == 6 and v[0] == 'N':
            e = v[5]
            if e not in ren:
                ren[e] = len(ren)
            return (v[1], v[2], tuple(r(x) for x in v[4]), ren[e])
        return v
    return (tuple((i, r(model.d[i])) for i in sorted(model.d)), tuple(keys))


def _expand(item):
    cfg, hist, ops = item
    out = []
    for op in ops:
        h = hist + (op,)
        viols, canon = replay_history(cfg, h)
        out.append((h, viols, canon))
    return cfg, out


def bfs(cfg, depth, stats, viols_out):
    ops = all_ops()
    seen = {}
    frontier = [()]
    for level in range(1, depth + 1):
        items = [(cfg, h, ops) for h in frontier]
        nxt = []
        for _, outs in pmap(_expand, items):
            for h, viols, canon in outs:
                stats['transitions'] += 1
                for key, msg in viols:
                    viols_out.append(Violation('C08', key, msg, {'cfg': list(cfg), 'history': [list(map(_j, op)) for op in h], 'clause': key},
                                               size=len(h) * 10 + sum(len(op[1]) for op in h)))
                if canon is None:
                    continue
                if canon in seen:
                    stats['revisits'] += 1
                    continue
                seen[canon] = h
                nxt.append(h)
        frontier = nxt
        stats['frontier_sizes'].append(len(nxt))
    stats['states'] += len(seen) + 1
    return seen


def _j(x):
    return list(x) if isinstance(x, tuple) else x


def run(tier: str, seed: int) -> Result:
    silence_labtech()
    if tier == 'quick':
        cfgs = [(('mem', 'TA'), 3), (('mem', 'TA', 'one-lab'), 3), (('mem', 'TA', 'same-tasks'), 3), (('fsspec', 'TA', 'observer'), 2), (('local', 'TA', 'observer'), 2), (('mem', 'TJ'), 2), (('mem', 'T2'), 2), (('local', 'TA'), 2), (('fsspec', 'TA'), 2), (('fsmem', 'TA'), 2), (('null', 'TA'), 2), (('local-rel', 'TA', 'one-lab'), 2), (('fsspec-rel', 'TA', 'one-lab'), 2)]
    else:
        cfgs = [(('mem', 'TA'), 4), (('mem', 'TA', 'one-lab'), 4), (('local', 'TA', 'one-lab'), 3), (('mem', 'TA', 'same-tasks'), 4), (('local', 'TJ', 'same-tasks'), 3),
                (('fsspec', 'TA', 'observer'), 3), (('local', 'TA', 'observer'), 3), (('fsmem', 'TA', 'observer'), 3), (('mem', 'TJ', 'observer'), 3), (('mem', 'TJ'), 3), (('mem', 'T2'), 3), (('local', 'TA'), 3), (('fsspec', 'TA'), 3),
                (('local', 'TJ'), 2), (('fsspec', 'TJ'), 2), (('fsmem', 'TA'), 3), (('fsmem', 'TJ'), 2), (('null', 'TA'), 3), (('local-rel', 'TA', 'one-lab'), 3), (('fsspec-rel', 'TA', 'one-lab'), 2), (('local-rel', 'TJ'), 2)]
    stats = {'states': 0, 'transitions': 0, 'revisits': 0, 'frontier_sizes': []}
    viols: list = []
    per_cfg = []
    sample_hist = None
    for cfg, depth in cfgs:
        before = (stats['states'], stats['transitions'])
        seen = bfs(cfg, depth, stats, viols)
        per_cfg.append({'cfg': list(cfg), 'depth': depth, 'states': stats['states'] - before[0], 'transitions': stats['transitions'] - before[1]})
        if sample_hist is None and seen:
            sample_hist = max(seen.values(), key=len)
    cov = {
        'states': stats['states'],
        'transitions': stats['transitions'],
        'traces_validated_against_impl': stats['transitions'],
        'samples': [{'history': [list(map(_j, op)) for op in (sample_hist or ())]}, {'per_configuration': per_cfg}],
        'evaluations': stats['transitions'],
        'distinct_nontrivial': stats['states'],
        'rule': ('BFS over histories of {run_tasks(S), run_tasks(S, bust_cache=True), uncache_tasks(S)} for every non-empty S of size <= 2 over 5 tasks, plus runs in which one task fails (own failure with/without bust_cache; failing dependency), '
                 '(2 independent cacheable, 1 cache=None, 1 cacheable depending on a cacheable, 1 cacheable depending on a cache=None task); '
                 'every transition is the real Lab replayed from the empty storage and compared with the dict model (return value, executed set, is_cached of all, '
                 'cached_tasks for 4 type lists, complete storage listing, read-back of everything on a copy); states = distinct canonical (model, listing) forms'),
        'revisits': stats['revisits'],
        'exhaustive': True,
    }
    return Result('C08', 'model_checking', cov, assumptions=[
        'fresh Lab and task objects per operation, plus configurations in which ONE Lab object serves the whole history, in which the SAME task objects serve the whole history, and in which one long-lived Lab + storage object observes after every step while the operations go through other storage objects for the same place',
        'FsspecStorage exercised over fsspec LocalFileSystem (the reference implementation quoted in storage.py)',
    ], violations=viols)


def replay(payload) -> int:
    cfg = tuple(payload['cfg'])
    hist = tuple(tuple(tuple(x) if isinstance(x, list) else x for x in op) for op in payload['history'])
    viols, canon = replay_history(cfg, hist, check_last_only=False)
    print('cfg', cfg, 'history', hist)
    for k, m in viols:
        print(' ', k, m)
    return 1 if viols else 0
