"""C16 - each task runs in the environment its backend and context promise.

Context part (E2 coordinator seam, real SerialRunner, real fork/spawn ProcessRunner over
the virtual OS): inside run() self.context must equal the task's own filter_context
applied to the Lab's context; cache keys and every stored byte must be identical under
two different contexts, and a sentinel placed in the context must occur in no stored file.
Process-model part: which start method labtech requests (E3) and - the only place it can
be observed - real fork/spawn/serial runs (E4) reporting pid, parent pid, thread, start
method and a parent-mutated module global from inside run().
"""
from __future__ import annotations

import itertools
import json
import os
import shutil
import sys
import tempfile
import threading

os.environ['VERIF_RECORD_ENV'] = '1'

import labtech  # noqa: E402
import labtech.runners.base as lt_base  # noqa: E402

from .. import e2, e3, families as F  # noqa: E402
from .. import universe as U  # noqa: E402
from ..common import HarnessError, Result, Violation, pmap, rotate, silence_labtech  # noqa: E402
from ..explore import Chooser, explore  # noqa: E402
from ..realrun import py_env, run_isolated  # noqa: E402
from ..savepath import FixedClock  # noqa: E402
from ..spec import FIXED_META, all_shapes, mk_spec, nonempty_subsets  # noqa: E402
from ..spy import run_once_serial  # noqa: E402

SENTINEL = 'SENTINEL-7f3a9c'
CTX_A = (('k0', SENTINEL), ('k1', 'one'), ('_noview', True), ('_private', 'p'))
CTX_SA = CTX_A + (('_return_self', True),)
CTX_B = (('k0', 'other'), ('k1', 'two'), ('_noview', True), ('_private', 'q'), ('extra', 42))
CTX_SB = CTX_B + (('_return_self', True),)
CTX_VIEW = (('k0', 'a0'), ('k1', 'a1'), ('_p', 'x'))
CTX_K0 = (('k0', 'only'),)        # the per-parameter filter of an odd-labelled task keeps nothing: its context is {}


def expected_ctx(tname: str, label: int, ctx: dict):
    if tname in ('TF', 'TH', 'TFN'):
        keep = f'k{label % 2}'
        ctx = {k: v for k, v in ctx.items() if k == keep or k.startswith('_')}
    elif tname == 'TG':
        ctx = dict(ctx, applied=ctx.get('applied', 0) + 1, mine=f'for-{label}')
    return sorted((str(a), repr(b)) for a, b in ctx.items())


def ctx_oracle(obs, ctx: dict):
    out = []
    seen = set()
    for ev in obs.world:
        if ev[0] != 'env':
            continue
        k = ev[1]
        seen.add(k)
        want = expected_ctx(k[0], k[1], ctx)
        if ev[7] != want:
            out.append(('wrong-context', f'inside run() of {k} self.context is {ev[7]}, filter_context(lab.context) is {want}'))
    executed = {ev[1] for ev in obs.events if ev[0] in ('exec_ok', 'exec_fail') and not ev[2]}
    for k in executed - seen:
        out.append(('no-env-record', f'{k} executed without an environment record (harness)'))
    return out


def bases(tier):
    nmax = 3
    out = []
    for n in range(1, nmax + 1):
        for shape in all_shapes(n):
            for types in itertools.product(('TA', 'TF', 'TG', 'TH') if n < 3 else ('TF', 'TG', 'TH'), repeat=n):
                spec = mk_spec(shape, types=types)
                req = tuple((i, False) for i in range(n))
                for ctx in (CTX_VIEW, CTX_A, None) + ((CTX_K0,) if n <= 2 else ()):
                    out.append(e2.Config(spec=spec, requested=req, context=ctx))
                    if n >= 2:
                        out.append(e2.Config(spec=spec, requested=req, context=ctx, precached=(0,)))
    # mlflow_run=True types (every execution is wrapped in an mlflow run)
    for n in (1, 2, 3):
        for shape in all_shapes(n):
            if n == 3 and sum(len(d) for d in shape) != 2:
                continue
            for types in {('TW',) * n, ('TW',) + ('TF',) * (n - 1)}:
                out.append(e2.Config(spec=mk_spec(shape, types=types), requested=tuple((i, False) for i in range(n)), context=CTX_VIEW))
    # never-cached types with a per-parameter filter (every such task has the same cache_key)
    for n in (2, 3):
        for shape in all_shapes(n):
            if sum(len(d) for d in shape) > 1:
                continue
            for types in ({('TFN',) * n, ('TFN',) * (n - 1) + ('TF',)}):
                out.append(e2.Config(spec=mk_spec(shape, types=types), requested=tuple((i, False) for i in range(n)), context=CTX_VIEW))
    return out


def ctx_work(item):
    kind, cfgs = item
    silence_labtech()
    res = []
    n = 0
    for cfg in cfgs:
        base = cfg.base if kind == 'e3' else cfg
        ctx = dict(base.context) if base.context is not None else {}

        def on_exec(ch, obs):
            nonlocal n
            n += 1
            for key, msg in ctx_oracle(obs, ctx) + (e3.oracle_gt('C16')(obs) if kind == 'e3' else []):
                tag = {'e2': 'coordinator seam', 'serial': 'real SerialRunner', 'e3': f'real {getattr(cfg, "backend", "")} ProcessRunner'}[kind]
                res.append((f'{kind if kind != "e3" else cfg.backend}:{key}', f'[{tag}] {msg} | cfg={cfg.brief()}', base.spec.n))
            if kind != 'e3':
                for key, msg in e2.oracle_c01(obs):
                    res.append((f'{kind}:value:{key}', f'{msg} | cfg={cfg.brief()}', base.spec.n))
        if kind == 'e2':
            explore(lambda ch: e2.run_once(cfg, ch), on_exec, max_deviations=1)
        elif kind == 'serial':
            # with the displays off and on (progress bars, task monitor): the serial backend runs every
            # task in the caller's process and thread either way
            for displays in (False, True):
                obs = run_once_serial(cfg, displays=displays)
                on_exec(None, obs)
                me = (os.getpid(), threading.get_ident())
                for ev in obs.world:
                    if ev[0] == 'env' and (ev[2], ev[4]) != me:
                        res.append(('serial:not-callers-thread', f'[real SerialRunner, displays {"on" if displays else "off"}] {ev[1]} ran in process/thread {(ev[2], ev[4])}, '
                                                                 f'the caller is {me} | cfg={cfg.brief()}', base.spec.n))
        else:
            explore(lambda ch: e3.run_once_e3(cfg, ch), on_exec, max_deviations=1)
            if base.precached:
                # the pre-cached entries are damaged (result file truncated, metadata intact): whatever
                # labtech then does with those tasks, a run() must see its proper context
                def corrupt(storage, built):
                    for i in base.precached:
                        files = storage.d.get(built.canon[i].cache_key, {})
                        for fn in list(files):
                            if fn != 'metadata.json':
                                files[fn] = files[fn][: len(files[fn]) // 2]
                explore(lambda ch: e3.run_once_e3(cfg, ch, storage_hook=corrupt), on_exec, max_deviations=1)
    return n, res


def stored_bytes_case(args):
    """Same tasks under two different contexts (clock fixed): identical keys and bytes; sentinel absent."""
    shape, types, backend = args
    silence_labtech()
    from ..sched_runner import MemStorage
    from ..spec import Built
    out = []
    snaps = []
    orig = lt_base.datetime
    lt_base.datetime = FixedClock
    try:
        for ctx_t in (CTX_SA, CTX_SB):
            spec = mk_spec(shape, types=types)
            built = Built(spec)
            st = MemStorage()
            try:
                FixedClock.script = [FIXED_META.start, FIXED_META.start + FIXED_META.duration] * (spec.n + 2)
                U.WORLD.reset(epoch=1)
                lab = labtech.Lab(storage=st, runner_backend=backend, notebook=False, context=dict(ctx_t))
                lab.run_tasks(list(built.canon), disable_progress=True, disable_top=True)
                snaps.append((st.snapshot(), [t.cache_key for t in built.canon]))
            finally:
                st.release()
    finally:
        lt_base.datetime = orig
    (sa, ka), (sb, kb) = snaps
    d = f'shape={shape} types={types} backend={backend}'
    if ka != kb:
        out.append(('key-depends-on-context', f'{d}: cache keys differ between two contexts', 1))
    if sa != sb:
        diff = [k for k in set(sa) | set(sb) if sa.get(k) != sb.get(k)]
        out.append(('stored-bytes-depend-on-context', f'{d}: stored entries differ between two contexts: {diff[:3]}', 1))
    for key, files in sa.items():
        for fn, data in files.items():
            if SENTINEL.encode() in data:
                out.append(('context-stored', f'{d}: a context value was written to {key}/{fn}', 1))
    return out


def real_dump(backend: str, mw: str, dag: int, storage_dir: str):
    silence_labtech()
    U.PARENT_MARK = 'mutated-by-caller'
    shapes = [((), ()), ((), (0,), (0, 1)), ((), (), (0,), (1, 2))]
    types = [('TH', 'TG'), ('TF', 'TG', 'TH'), ('TA', 'TG', 'TF', 'TH')]
    spec = mk_spec(shapes[dag], types=types[dag])
    from ..spec import Built
    built = Built(spec)
    lab = labtech.Lab(storage=storage_dir, runner_backend=backend, max_workers=(None if mw == 'None' else int(mw)),
                      notebook=False, context=dict(CTX_VIEW))
    res = lab.run_tasks(list(built.canon), disable_progress=True, disable_top=True)
    import multiprocessing
    print(json.dumps({'pid': os.getpid(), 'tid': threading.get_ident(), 'n': spec.n, 'returned': len(res),
                      'parent_start_method': multiprocessing.get_start_method(allow_none=True)}))


def real_sequence_dump(order: str, storage_root: str):
    """Several Labs with different backends used one after the other in ONE caller process."""
    silence_labtech()
    U.PARENT_MARK = 'mutated-by-caller'
    from ..spec import Built
    import multiprocessing
    out = []
    os.makedirs(storage_root, exist_ok=True)
    for step, backend in enumerate(order.split('-')):
        again = backend.endswith('B')       # then re-execute through the single-task entry point: run_task(t, bust_cache=True)
        backend = backend.rstrip('B')
        spec = mk_spec(((), (0,)), types=('TA', 'TG'), labels=(10 * step, 10 * step + 1))
        built = Built(spec)
        lab = labtech.Lab(storage=os.path.join(storage_root, f's{step}'), runner_backend=backend, max_workers=2, notebook=False, context=dict(CTX_VIEW))
        res = lab.run_tasks(list(built.canon), disable_progress=True, disable_top=True)
        if again:
            lab.run_task(built.canon[-1], bust_cache=True, disable_progress=True, disable_top=True)
        out.append({'backend': backend, 'labels': list(spec.labels), 'returned': len(res), 'executions': 2 if again else 1})
    print(json.dumps({'pid': os.getpid(), 'tid': threading.get_ident(), 'steps': out}))


def real_sequence_case(order: str):
    tmp = tempfile.mkdtemp(prefix='c16s_')
    out = []
    try:
        wf = os.path.join(tmp, 'world.log')
        open(wf, 'w').close()
        rc, so, se = run_isolated([sys.executable, '-m', 'verif_lt.props.c16', '--sequence', order, os.path.join(tmp, 'st')],
                                  env=py_env(1, VERIF_WORLD_FILE=wf, VERIF_RECORD_ENV=1), timeout=300)
        d = f'backends used one after the other in one process: {order}'
        if rc != 0:
            return [(f'sequence-run-failed', f'{d}: exited {rc}: {se[-500:]}', 1)], 0
        parent = json.loads(so.strip().splitlines()[-1])
        envs = [json.loads(l) for l in open(wf) if l.strip()]
        counts: dict = {}
        for e in envs:
            if e[2] == 'env':
                counts[tuple(e[3])[1]] = counts.get(tuple(e[3])[1], 0) + 1
        envs = {tuple(e[3])[1]: e for e in envs if e[2] == 'env'}      # the latest execution of each label
        n = 0
        for step in parent['steps']:
            for label in step['labels']:
                e = envs.get(label)
                if e is None or counts.get(label) != step.get('executions', 1):
                    out.append((f'{step["backend"]}:missing-executions', f'{d}: {counts.get(label, 0)} environment records for label {label}, expected {step.get("executions", 1)}', 1))
                    continue
                n += 1
                pid, ppid, tid, method, mark = e[4], e[5], e[6], e[7], e[8]
                b = step['backend']
                if b == 'serial':
                    if pid != parent['pid'] or tid != parent['tid']:
                        out.append(('serial:not-callers-thread', f'{d}: label {label} ran in {pid}/{tid}', 1))
                elif b == 'fork':
                    if pid == parent['pid'] or ppid != parent['pid'] or mark != 'mutated-by-caller':
                        out.append(('fork:memory-not-inherited', f'{d}: fork-backend task {label}: pid {pid} ppid {ppid} sees global {mark!r}', 1))
                else:
                    if mark != 'import-time' or method != 'spawn' or pid == parent['pid']:
                        out.append(('spawn:shares-memory', f'{d}: spawn-backend task {label}: start method {method!r}, sees global {mark!r}', 1))
        return out, n
    finally:
        shutil.rmtree(tmp, ignore_errors=True)


THREAD_CTX = {'A': (('k0', 'A0'), ('k1', 'A1')), 'B': (('k0', 'B0'), ('k1', 'B1'))}


def real_threads_dump(backend: str, storage_root: str):
    """Two Labs with different contexts whose run_tasks calls overlap in time (two threads of
    the caller); the tasks stay inside run() until both runs have workers executing."""
    silence_labtech()
    import time
    from ..spec import Built
    os.makedirs(storage_root, exist_ok=True)
    bd = os.environ['VERIF_BARRIER_DIR']
    wf = os.environ['VERIF_WORLD_FILE']
    results = {}

    def run(name, labels):
        # the third task depends on the first: it is started only after the other Lab's runner exists
        spec = mk_spec(((), (), (0,)), types=('TA', 'TG', 'TG'), labels=labels)
        lab = labtech.Lab(storage=os.path.join(storage_root, name), runner_backend=backend, max_workers=2, notebook=False, context=dict(THREAD_CTX[name]))
        try:
            results[name] = len(lab.run_tasks(list(Built(spec).canon), disable_progress=True, disable_top=True))
        except BaseException as e:  # noqa
            results[name] = f'{type(e).__name__}: {e}'
    ths = [threading.Thread(target=run, args=('A', (0, 1, 2))), threading.Thread(target=run, args=('B', (10, 11, 12)))]
    for lb in (2, 12):
        open(os.path.join(bd, f'go_{lb}'), 'w').close()     # the dependent tasks never wait
    ths[0].start()
    # wait until A's workers are inside run(), then start B, then release everything once B's are too
    def blocked():
        return [json.loads(l)[3][1] for l in open(wf) if l.strip() and json.loads(l)[2] == 'blocked']
    t0 = time.monotonic()
    while time.monotonic() - t0 < 30 and len([x for x in blocked() if x < 10]) < 2:
        time.sleep(0.01)
    ths[1].start()
    while time.monotonic() - t0 < 60 and len([x for x in blocked() if x >= 10]) < 2 and ths[1].is_alive():
        time.sleep(0.01)
    for lb in (0, 1, 10, 11):
        open(os.path.join(bd, f'go_{lb}'), 'w').close()
    for th in ths:
        th.join(120)
    print(json.dumps({'results': results, 'overlapped': len(blocked())}))


def real_threads_case(backend: str):
    tmp = tempfile.mkdtemp(prefix='c16t_')
    out = []
    try:
        wf = os.path.join(tmp, 'world.log')
        open(wf, 'w').close()
        bd = os.path.join(tmp, 'barrier')
        os.makedirs(bd)
        rc, so, se = run_isolated([sys.executable, '-m', 'verif_lt.props.c16', '--threads', backend, os.path.join(tmp, 'st')],
                                  env=py_env(1, VERIF_WORLD_FILE=wf, VERIF_RECORD_ENV=1, VERIF_BARRIER_DIR=bd), timeout=300)
        d = f'two Labs ({backend} backend) with different contexts whose run_tasks calls overlap (two threads of the caller)'
        if rc != 0:
            return [('threads-run-failed', f'{d}: exited {rc}: {se[-500:]}', 1)], 0
        o = json.loads(so.strip().splitlines()[-1])
        for name, r in o['results'].items():
            if r != 3:
                out.append((f'{backend}:overlapping-run-failed', f'{d}: Lab {name} returned {r!r} instead of 3 results', 1))
        envs = [json.loads(l) for l in open(wf) if l.strip()]
        n = 0
        for e in envs:
            if e[2] != 'env':
                continue
            n += 1
            k = tuple(e[3])
            name = 'A' if k[1] < 10 else 'B'
            want = [list(x) for x in expected_ctx(k[0], k[1], dict(THREAD_CTX[name]))]
            if e[9] != want:
                out.append((f'{backend}:wrong-context', f'{d}: task {k} of Lab {name} ran with context {e[9]}, its Lab\'s filtered context is {want}', 1))
        return out, n
    finally:
        shutil.rmtree(tmp, ignore_errors=True)


def real_relab_dump(backend: str, storage_root: str):
    """One Lab (and one runner-backend object shared by two Labs) serving several run_tasks calls
    whose contexts differ."""
    silence_labtech()
    from ..spec import Built
    from labtech.runners import ForkRunnerBackend, SerialRunnerBackend, SpawnRunnerBackend
    os.makedirs(storage_root, exist_ok=True)
    ctxs = [{'k0': 'A0', 'k1': 'A1'}, {'k0': 'B0', 'k1': 'B1'}, {'k0': 'C0', 'k1': 'C1', 'applied': 5}]
    runs = []
    lab = labtech.Lab(storage=os.path.join(storage_root, 's0'), runner_backend=backend, max_workers=2, notebook=False, context=dict(ctxs[0]))
    for step in range(3):
        spec = mk_spec(((), (0,)), types=('TF', 'TG'), labels=(10 * step, 10 * step + 1))
        if step:
            lab.context = dict(ctxs[step])            # the context is replaced between the calls
        res = lab.run_tasks(list(Built(spec).canon), disable_progress=True, disable_top=True)
        runs.append({'labels': list(spec.labels), 'ctx': ctxs[step], 'returned': len(res)})
    # the task objects of the first call run once more (bust_cache) under a context that lacks keys the first one had
    spec0 = mk_spec(((), (0,)), types=('TF', 'TG'), labels=(50, 51))
    objs = list(Built(spec0).canon)
    lab.context = dict(ctxs[0])
    lab.run_tasks(objs, disable_progress=True, disable_top=True)
    lab.context = {'k0': 'Z0'}
    res = lab.run_tasks(objs, bust_cache=True, disable_progress=True, disable_top=True)
    runs.append({'labels': list(spec0.labels), 'ctx': {'k0': 'Z0'}, 'returned': len(res)})
    be = {'serial': SerialRunnerBackend, 'fork': ForkRunnerBackend, 'spawn': SpawnRunnerBackend}[backend]()
    for step in (3, 4):
        spec = mk_spec(((), (0,)), types=('TF', 'TG'), labels=(10 * step, 10 * step + 1))
        lab2 = labtech.Lab(storage=os.path.join(storage_root, f's{step}'), runner_backend=be, max_workers=2, notebook=False, context=dict(ctxs[step - 3]))
        res = lab2.run_tasks(list(Built(spec).canon), disable_progress=True, disable_top=True)
        runs.append({'labels': list(spec.labels), 'ctx': ctxs[step - 3], 'returned': len(res)})
    print(json.dumps({'runs': runs}))


def real_relab_case(backend: str):
    tmp = tempfile.mkdtemp(prefix='c16l_')
    out = []
    try:
        wf = os.path.join(tmp, 'world.log')
        open(wf, 'w').close()
        rc, so, se = run_isolated([sys.executable, '-m', 'verif_lt.props.c16', '--relab', backend, os.path.join(tmp, 'st')],
                                  env=py_env(1, VERIF_WORLD_FILE=wf, VERIF_RECORD_ENV=1), timeout=300)
        d = f'one Lab / one backend object serving several run_tasks calls with different contexts ({backend})'
        if rc != 0:
            return [('relab-run-failed', f'{d}: exited {rc}: {se[-500:]}', 1)], 0
        parent = json.loads(so.strip().splitlines()[-1])
        envs = [json.loads(l) for l in open(wf) if l.strip()]
        envs = {tuple(e[3])[1]: e for e in envs if e[2] == 'env'}
        n = 0
        for r in parent['runs']:
            for label in r['labels']:
                e = envs.get(label)
                if e is None or r['returned'] != 2:
                    out.append((f'{backend}:missing-executions', f'{d}: no environment record / result for label {label}', 1))
                    continue
                n += 1
                k = tuple(e[3])
                want = [list(x) for x in expected_ctx(k[0], k[1], dict(r['ctx']))]
                if e[9] != want:
                    out.append((f'{backend}:wrong-context-in-later-run', f'{d}: {k} ran with context {e[9]}, filter_context(lab.context) is {want}', 1))
        return out, n
    finally:
        shutil.rmtree(tmp, ignore_errors=True)


def real_case(args):
    backend, mw, dag = args[:3]
    inline = len(args) > 3 and args[3] == 'inline'
    tmp = tempfile.mkdtemp(prefix='c16r_')
    out = []
    try:
        wf = os.path.join(tmp, 'world.log')
        open(wf, 'w').close()
        argv = [sys.executable, '-m', 'verif_lt.props.c16', '--real', backend, str(mw), str(dag), os.path.join(tmp, 'st')]
        if inline:
            # the caller is not a script file: python -c (no __main__.__file__), as in a REPL or notebook
            argv = [sys.executable, '-c', 'import sys; from verif_lt.props.c16 import real_dump; real_dump(sys.argv[1], sys.argv[2], int(sys.argv[3]), sys.argv[4])',
                    backend, str(mw), str(dag), os.path.join(tmp, 'st')]
        rc, so, se = run_isolated(argv, env=py_env(1, VERIF_WORLD_FILE=wf, VERIF_RECORD_ENV=1), timeout=240)
        d = f'backend={backend} max_workers={mw} dag={dag}' + (' (caller started with python -c)' if inline else '')
        if rc != 0:
            return [(f'run-failed:{backend}', f'{d}: exited {rc}: {se[-500:]}', 1)], 0
        parent = json.loads(so.strip().splitlines()[-1])
        envs = [json.loads(l) for l in open(wf) if l.strip()]
        envs = [e for e in envs if e[2] == 'env']
        if len(envs) != parent['n'] or parent['returned'] != parent['n']:
            out.append(('missing-executions', f'{d}: {len(envs)} environment records / {parent["returned"]} results for {parent["n"]} tasks', 1))
        pids = set()
        for e in envs:
            wpid, wtid, _, k, pid, ppid, tid, method, mark, ctx = e[:10]
            k = tuple(k)
            want_ctx = [list(x) for x in expected_ctx(k[0], k[1], dict(CTX_VIEW))]
            if ctx != want_ctx:
                out.append((f'{backend}:wrong-context', f'{d}: inside run() of {k} context {ctx}, expected {want_ctx}', 1))
            if backend == 'serial':
                if pid != parent['pid'] or tid != parent['tid']:
                    out.append(('serial:not-callers-thread', f'{d}: {k} ran in pid/thread {pid}/{tid}, caller is {parent["pid"]}/{parent["tid"]}', 1))
                continue
            if pid == parent['pid']:
                out.append((f'{backend}:ran-in-caller', f'{d}: {k} ran in the caller\'s process', 1))
            if ppid != parent['pid']:
                out.append((f'{backend}:not-child-of-caller', f'{d}: {k} ran in pid {pid} whose parent is {ppid}, caller is {parent["pid"]}', 1))
            if pid in pids:
                out.append((f'{backend}:process-reused', f'{d}: pid {pid} executed more than one task', 1))
            pids.add(pid)
            if backend == 'fork':
                if mark != 'mutated-by-caller':
                    out.append(('fork:memory-not-inherited', f'{d}: {k} sees module global {mark!r}; the caller set it to "mutated-by-caller" before run_tasks', 1))
            else:
                if mark != 'import-time':
                    out.append(('spawn:shares-memory', f'{d}: {k} sees the caller\'s mutation of a module global ({mark!r}): not a freshly started interpreter', 1))
                if method != 'spawn':
                    out.append(('spawn:start-method', f'{d}: {k} runs in a process whose start method is {method!r}', 1))
        return out, len(envs)
    finally:
        shutil.rmtree(tmp, ignore_errors=True)


def _work(item):
    kind = item[0]
    if kind in ('e2', 'serial', 'e3'):
        n, res = ctx_work(item)
        return 'ctx', n, res
    if kind == 'bytes':
        return 'bytes', 1, stored_bytes_case(item[1])
    if kind == 'seq':
        out, n = real_sequence_case(item[1])
        return 'real', n, out
    if kind == 'threads':
        out, n = real_threads_case(item[1])
        return 'real', n, out
    if kind == 'relab':
        out, n = real_relab_case(item[1])
        return 'real', n, out
    out, n = real_case(item[1])
    return 'real', n, out


def run(tier: str, seed: int) -> Result:
    silence_labtech()
    bs = rotate(bases(tier), seed)
    work = []
    for i in range(0, len(bs), 30):
        work.append(('e2', bs[i:i + 30]))
        work.append(('serial', bs[i:i + 30]))
    e3b = [b for b in bs if b.spec.n <= (2 if tier == 'quick' else 3) or 'TFN' in b.spec.types]
    e3c = list(F.fam_e3(e3b, workers=(1, 2) if tier == 'quick' else (1, 2, None), liveness=False))
    for i in range(0, len(e3c), 10):
        work.append(('e3', e3c[i:i + 10]))
    for n in (1, 2, 3):
        for shape in all_shapes(n):
            for types in itertools.product(('TA', 'TF', 'TJ'), repeat=n):
                work.append(('bytes', (shape, types, 'serial')))
    mws = (1, 2) if tier == 'quick' else (1, 2, 'None')
    dags = (0, 1) if tier == 'quick' else (0, 1, 2)
    reals = [(b, mw, dg) for b in ('serial', 'fork', 'spawn') for mw in mws for dg in dags]
    reals += [('spawn', 2, 0, 'inline'), ('fork', 2, 0, 'inline')] + ([('spawn', 1, 1, 'inline'), ('serial', 1, 1, 'inline')] if tier != 'quick' else [])
    seqs = ['fork-spawn-fork', 'spawn-fork-serial', 'forkB-spawnB'] if tier == 'quick' else ['fork-spawn-fork', 'spawn-fork-serial', 'serial-spawn-spawn-fork', 'fork-fork-spawn', 'forkB-spawnB', 'spawnB-serialB-forkB']
    work = [('real', r) for r in reals] + [('seq', sq) for sq in seqs] + [('relab', b) for b in ('serial', 'fork', 'spawn')] + [('threads', 'fork')] + ([('threads', 'spawn')] if tier != 'quick' else []) + work
    viols = []
    n_ctx = n_bytes = n_real = 0
    for kind, n, res in pmap(_work, work):
        if kind == 'ctx':
            n_ctx += n
        elif kind == 'bytes':
            n_bytes += n
        else:
            n_real += n
        for key, msg, size in res:
            viols.append(Violation('C16', key, msg, {'tier': tier, 'clause': key, 'msg': msg}, size=size))
    cov = {
        'evaluations': n_ctx + n_bytes + n_real,
        'distinct_nontrivial': len(bs) * 2 + len(e3c) + n_bytes + len(reals),
        'rule': ('context: all DAG shapes n<=3 x per-node type {identity filter, per-parameter filter} x 3 contexts x {cold, one node pre-cached} on the coordinator seam '
                 '(default schedule + every single deviation), the real SerialRunner and the real fork/spawn ProcessRunner over the virtual OS (which also records the start '
                 'method requested for every worker); stored bytes: every shape n<=3 x 3 types run under two different contexts with a fixed clock; process model: '
                 f'{len(reals)} real runs (serial/fork/spawn x max_workers x DAG) and {len(seqs)} sequences of different backends in one caller process, and two Labs whose run_tasks calls overlap in two threads of the caller, reporting pid, ppid, thread, start method and a parent-mutated module global from inside run(); '
                 'distinct_nontrivial = configurations'),
        'samples': [bs[0].brief(), {'real_run': list(reals[0])}, {'real_run': list(reals[-1])}],
        'context_executions': n_ctx, 'stored_bytes_cases': n_bytes, 'real_task_environment_records': n_real,
        'exhaustive': True,
    }
    return Result('C16', 'exploration', cov, assumptions=[
        'the process model can only be observed on real processes: a finite enumerated list of real runs, not schedule-exhaustive',
        'the context does not depend on the schedule; schedules are covered to one deviation from the default',
    ], violations=viols)


def replay(payload) -> int:
    print(json.dumps(payload, indent=1))
    r = run(payload.get('tier', 'quick'), 0)
    keys = sorted({v.key for v in r.violations})
    print('violation keys now:', keys)
    return 1 if payload.get('clause') in keys else 0


if __name__ == '__main__':
    if len(sys.argv) >= 6 and sys.argv[1] == '--real':
        real_dump(sys.argv[2], sys.argv[3], int(sys.argv[4]), sys.argv[5])
    elif len(sys.argv) >= 4 and sys.argv[1] == '--threads':
        real_threads_dump(sys.argv[2], sys.argv[3])
    elif len(sys.argv) >= 4 and sys.argv[1] == '--relab':
        real_relab_dump(sys.argv[2], sys.argv[3])
    elif len(sys.argv) >= 4 and sys.argv[1] == '--sequence':
        real_sequence_dump(sys.argv[2], sys.argv[3])
