"""C19 - messages emitted by a task reach the caller's log exactly once.

E3 with log-queue delivery as an explorer choice: the real ProcessRunner (fork and
spawn) over the virtual OS, tasks with print / flush / logger / stderr emit
patterns.  When run_tasks returns, every emitted fragment must have been
received exactly once by a handler attached to labtech.logger in the caller.
"""
from __future__ import annotations

import itertools
import json
import logging
import os

from .. import e2, e3
from .. import universe as U
from ..common import HarnessError, Result, Violation, pmap, rotate, silence_labtech
from ..explore import Chooser, explore
from ..spec import mk_spec

PATTERNS = ('log', 'print', 'print+flush', 'print+flush+print+flush', 'err', 'log+print+err+eflush', 'warn+print+flush+log')


class Collect(logging.Handler):
    def __init__(self):
        super().__init__(level=logging.DEBUG)
        self.msgs: list = []

    def emit(self, record):
        try:
            self.msgs.append(record.getMessage())
        except BaseException as e:  # noqa
            self.msgs.append(f'<unformattable {e}>')


def run_one(cfg: e3.E3Config, chooser: Chooser):
    from labtech.utils import logger
    # the caller has several handlers of its own on the labtech logger: each of them must get
    # every fragment exactly once
    h = Collect()
    hs = [h, Collect(), Collect()]
    saved_level, saved_handlers, saved_prop = logger.level, list(logger.handlers), logger.propagate
    logger.handlers = list(hs)
    root = logging.getLogger()
    saved_root_level = root.level
    if cfg.base.loglevel == 'NOTSET':
        # the caller configures levels on the root logger only: the labtech logger inherits INFO
        root.setLevel(logging.INFO)
        logger.setLevel(logging.NOTSET)
    else:
        logger.setLevel(logging.INFO)
    logger.propagate = False
    at_return: list = []

    def hook(world):
        pass
    import contextlib
    import labtech.lab as lt_lab
    saved_redirect = lt_lab.logging_redirect_tqdm
    # display only: lab.py routes console handlers through tqdm for the duration of a run;
    # the collecting handler is not a console handler, keep the console quiet
    lt_lab.logging_redirect_tqdm = lambda loggers=None, tqdm_class=None: contextlib.nullcontext()
    try:
        obs = e3.run_once_e3(cfg, chooser)
    finally:
        lt_lab.logging_redirect_tqdm = saved_redirect
        logger.handlers = saved_handlers
        logger.setLevel(saved_level)
        logger.propagate = saved_prop
        root.setLevel(saved_root_level)
    # records handled before run_tasks returned = everything collected before the world was finished;
    # run_once_e3 lets the children finish afterwards but nothing consumes the queue any more
    return obs, [list(x.msgs) for x in hs]


def oracle(cfg: e3.E3Config, obs, msgs_per_handler):
    out = []
    seen = set()
    for hi, msgs in enumerate(msgs_per_handler if msgs_per_handler and isinstance(msgs_per_handler[0], list) else [msgs_per_handler]):
        for k, m in oracle_one(cfg, obs, msgs):
            if k not in seen:
                seen.add(k)
                out.append((k, m + (f' (handler #{hi + 1} of the caller)' if hi else '')))
    return out


def oracle_one(cfg: e3.E3Config, obs, msgs):
    out = []
    spec = cfg.spec
    if obs.outcome[0] != 'return':
        return [('run-failed', f'run_tasks did not return: {obs.outcome[1]!r}')]
    import collections
    # a fragment counts as delivered when a received record starts with it (logger records) or
    # contains it as a complete line (captured output) - a mention inside some other text, such as
    # the "Logging error" dump of a record that could not be sent, is not a delivery
    seen_tokens: collections.Counter = collections.Counter()
    PREFIX = {'log': 'log', 'dlog': 'dbg', 'warn': 'warn', 'exc': 'exc', 'burst': 'b', 'print': 'out', 'iprint': 'out', 'nprint': 'out',
              'wprint': 'out', 'eprint': 'out', 'rprint': 'out', 'err': 'err', 'tprint': 'out', 'bprint': 'out'}
    first_lines = collections.Counter(m.split('\n', 1)[0] for m in msgs)
    all_lines = collections.Counter(ln.strip() for m in msgs for ln in m.split('\n'))
    for i, pat in cfg.base.emit:
        label = spec.labels[i]
        for tok in U.emit_tokens(label, pat):
            kind = pat.split('+')[int(tok.split('.')[1].rstrip('>'))]
            if kind.startswith('burst'):
                kind = 'burst'
            text = PREFIX[kind] + tok
            n = first_lines.get(text, 0) if kind in ('log', 'dlog', 'warn', 'exc', 'burst') else all_lines.get(text, 0)
            if n == 0:
                out.append((f'lost:{kind}', f'fragment {tok} ({kind}, pattern {pat!r}) of node {i} was never delivered to the caller\'s labtech logger before run_tasks returned'))
            elif n > 1:
                out.append((f'duplicated:{kind}', f'fragment {tok} ({kind}, pattern {pat!r}) of node {i} was delivered {n} times'))
    return out


def explore_cfg(args):
    cfg, max_exec, max_dev = args
    silence_labtech()
    viols = []
    seen = set()
    outcomes = set()

    def run(ch):
        return run_one(cfg, ch)

    def on_exec(ch, res):
        obs, msgs = res
        outcomes.add(tuple(sorted(msgs[0])))
        for key, msg in oracle(cfg, obs, msgs):
            if key in seen:
                continue
            seen.add(key)
            viols.append(Violation('C19', f'{cfg.backend}:{key}', f'[{cfg.backend}] {msg} | cfg={cfg.brief()} choices={ch.choices}',
                                   {'cfg': cfg.to_json(), 'choices': ch.choices, 'clause': key},
                                   size=cfg.spec.n * 100 + len(ch.choices)))

    st = explore(run, on_exec, max_executions=max_exec, max_deviations=max_dev)
    return {'executions': st.executions, 'states': len(st.states), 'transitions': len(st.transitions),
            'capped': st.capped, 'delivered_sets': len(outcomes), 'viols': viols, 'cfg': cfg.brief()}


def real_dump(cfg_json: str, backend: str, mw: str, storage_dir: str):
    """Isolated interpreter: the same harness on the real fork / spawn backend."""
    import labtech
    from ..spec import Built
    silence_labtech()
    cfg = e2.Config.from_json(json.loads(cfg_json))
    spec = cfg.spec
    emit = {spec.labels[i]: pat for i, pat in cfg.emit}
    os.environ['VERIF_EMIT'] = json.dumps({str(k): v for k, v in emit.items()})
    os.environ['VERIF_FAULTS'] = ','.join(str(spec.labels[i]) for i in cfg.faults)
    U.WORLD.reset(epoch=1, faults=[spec.labels[i] for i in cfg.faults], emit=emit)
    from labtech.utils import logger
    h = Collect()
    logfile = os.path.join(os.path.dirname(storage_dir), 'caller.log')
    fh = logging.FileHandler(logfile)
    fh.setFormatter(logging.Formatter('%(message)s'))
    logger.handlers = [h, fh, Collect()]
    if cfg.loglevel == 'NOTSET':
        logging.getLogger().setLevel(logging.INFO)
        logger.setLevel(logging.NOTSET)
    else:
        logger.setLevel(logging.INFO)
    logger.propagate = False
    built = Built(spec)
    lab = labtech.Lab(storage=storage_dir, runner_backend=backend, max_workers=int(mw), notebook=False)
    import contextlib, io
    with contextlib.redirect_stderr(io.StringIO()):
        res = lab.run_tasks(list(built.canon), disable_progress=True, disable_top=True)
    fh.flush()
    print(json.dumps({'returned': len(res), 'msgs': h.msgs, 'file_lines': open(logfile).read().split('\n')}))


def real_case(args):
    cfg, backend, mw = args
    import shutil
    import sys
    import tempfile
    from types import SimpleNamespace
    from ..realrun import py_env, run_isolated
    tmp = tempfile.mkdtemp(prefix='c19r_')
    try:
        rc, so, se = run_isolated([sys.executable, '-m', 'verif_lt.props.c19', '--real', json.dumps(cfg.to_json()), backend, str(mw), os.path.join(tmp, 'st')],
                                  env=py_env(1), timeout=180)
        if rc != 0:
            raise HarnessError(f'real C19 run failed ({rc}): {se[-600:]}')
        o = json.loads(so.strip().splitlines()[-1])
        fake_cfg = SimpleNamespace(spec=cfg.spec, base=cfg, backend=backend)
        obs = SimpleNamespace(outcome=('return', {}))
        out = oracle(fake_cfg, obs, [o['msgs'], o['file_lines']])
        return [(f'{backend}:real:{k}', f'[real {backend} backend, max_workers={mw}] {m} | cfg={cfg.brief()}') for k, m in out]
    finally:
        shutil.rmtree(tmp, ignore_errors=True)


def _real(a):
    return real_case(a)


def real_cases(tier: str):
    out = []
    pats = [('log', 'print'), ('print+flush+print+flush', 'log+print+err+eflush'), ('print', 'print'), ('nprint+iprint', 'exc'), ('wprint', 'eprint'), ('log+print+flush+die', 'log'), ('print+rprint', 'err'), ('dlog', 'log+dlog'), ('bprint', 'print+bprint'), ('tprint', 'print+tprint'), ('wrap+print', 'print+wrap+print')]
    for pa, pb in pats:
        for shape in [((), ()), ((), (0,))]:
            base = e2.Config(spec=mk_spec(shape), requested=((0, False), (1, False)), emit=((0, pa), (1, pb)))
            for be in ('fork', 'spawn'):
                for mw in ((1, 2) if tier != 'quick' else (2,)):
                    out.append((base, be, mw))
    base = e2.Config(spec=mk_spec(((), ())), requested=((0, False), (1, False)), emit=((0, 'print+err'), (1, 'log')), faults=(0,))
    out += [(base, 'fork', 2), (base, 'spawn', 1)]
    base = e2.Config(spec=mk_spec(((), (0,))), requested=((0, False), (1, False)), emit=((0, 'log+print'), (1, 'warn+log')), loglevel='NOTSET')
    out += [(base, 'fork', 2), (base, 'spawn', 2)]
    return out


def configs(tier: str):
    out = []
    shapes2 = [((), ()), ((), (0,))]
    pats = PATTERNS if tier != 'quick' else ('log', 'print', 'print+flush+print+flush', 'log+print+err+eflush')
    for shape in shapes2:
        for pa, pb in itertools.product(pats, repeat=2):
            base = e2.Config(spec=mk_spec(shape), requested=tuple((i, False) for i in range(2)), emit=((0, pa), (1, pb)))
            for be in ('fork', 'spawn'):
                for mw in (1, 2):
                    out.append(e3.E3Config(base=base, backend=be, max_workers=mw, log_mode='choice', liveness_choice=False))
    # output of failing tasks, whitespace-led output, and a burst larger than any plausible queue bound
    extra = [('dlog', 'log', ()), ('log+dlog', 'dlog+print+flush', ()), ('log+die', 'print', ()), ('print+flush+die', 'log', ()), ('warn+print+flush+die', 'print+flush', ()),
             ('print+rprint+flush', 'log', ()), ('print+rprint+rprint+print', 'print', ()), ('err+rprint', 'rprint', ()),
             ('print', 'log', (0,)), ('print+err', 'print+flush', (0,)), ('log+print', 'print', (1,)), ('print', 'print', (0, 1)),
             ('iprint+flush+nprint', 'log', ()), ('nprint', 'iprint', ()), ('burst1200', 'log', ()),
             ('bprint', 'log', ()), ('print+bprint+flush', 'bprint', ()), ('tprint', 'log', ()), ('print+tprint+flush+tprint', 'tprint', ()), ('wrap+print', 'log', ()), ('print+wrap+print', 'wrap+print+flush+print', ()),
             ('exc', 'print', ()), ('log+exc', 'exc', (1,)), ('wprint', 'print+flush+eprint', ()), ('print+flush+wprint', 'eprint', ())]
    for pa, pb, faults in extra:
        for shape in shapes2[:1] if pa.startswith('burst') else shapes2:
            base = e2.Config(spec=mk_spec(shape), requested=tuple((i, False) for i in range(2)), emit=((0, pa), (1, pb)), faults=faults)
            for be in ('fork', 'spawn'):
                for mw in ((2,) if pa.startswith('burst') else (1, 2)):
                    out.append(e3.E3Config(base=base, backend=be, max_workers=mw, log_mode='choice', liveness_choice=False))
    # a caller whose labtech logger has no level of its own (NOTSET; the root logger is at INFO)
    for pa, pb in (('log', 'print'), ('log+print+err+eflush', 'warn')):
        for shape in shapes2:
            base = e2.Config(spec=mk_spec(shape), requested=tuple((i, False) for i in range(2)), emit=((0, pa), (1, pb)), loglevel='NOTSET')
            for be in ('fork', 'spawn'):
                out.append(e3.E3Config(base=base, backend=be, max_workers=2, log_mode='choice', liveness_choice=False))
    if tier != 'quick':
        for shape in [((), (), ()), ((), (), (0, 1)), ((), (0,), (1,))]:
            for pats3 in itertools.product(('log', 'print', 'print+flush'), repeat=3):
                base = e2.Config(spec=mk_spec(shape), requested=tuple((i, False) for i in range(3)),
                                 emit=tuple((i, p) for i, p in enumerate(pats3)))
                for be in ('fork', 'spawn'):
                    out.append(e3.E3Config(base=base, backend=be, max_workers=2, log_mode='choice', liveness_choice=False))
    else:
        base = e2.Config(spec=mk_spec(((), (), ())), requested=tuple((i, False) for i in range(3)),
                         emit=((0, 'log'), (1, 'print+flush'), (2, 'print')))
        out.append(e3.E3Config(base=base, backend='fork', max_workers=2, log_mode='choice', liveness_choice=False))
    return out


def run(tier: str, seed: int) -> Result:
    silence_labtech()
    cfgs = rotate(configs(tier), seed)
    cap = 12000 if tier == "quick" else 60000
    # the burst harness (1200 records from one task) is explored to one deviation from the default
    # schedule only; everything else exhaustively
    work = [(c, cap, 1 if any('burst' in p for _, p in c.base.emit) else None) for c in cfgs]
    n_bounded = sum(1 for w in work if w[2] is not None)
    viols = []
    ex = states = trans = capped = multi = 0
    samples = []
    for r in pmap(explore_cfg, work, chunksize=2):
        ex += r['executions']
        states += r['states']
        trans += r['transitions']
        capped += 1 if r['capped'] else 0
        multi += 1 if r['delivered_sets'] > 1 else 0
        viols.extend(r['viols'])
        if len(samples) < 3:
            samples.append({'cfg': r['cfg'], 'schedules': r['executions'], 'distinct_delivered_record_sets': r['delivered_sets']})
    # the same harnesses on the real fork / spawn backends: their delivered-record multiset must be the
    # complete one (the only member of the set E3 enumerates on a tree where the property holds)
    rcs = real_cases(tier)
    n_real_ok = 0
    for res in pmap(_real, rcs):
        if not res:
            n_real_ok += 1
        for key, msg in res:
            viols.append(Violation('C19', key, msg, {'clause': key, 'real': True}, size=3000))
    cov = {
        'states': states, 'transitions': trans, 'traces_validated_against_impl': n_real_ok, 'samples': samples,
        'real_fork_spawn_runs': len(rcs),
        'evaluations': ex, 'distinct_nontrivial': len(cfgs),
        'rule': ('2 tasks (independent / chained) x every pair of emit patterns x fork/spawn x max_workers {1,2} (thorough: 3 tasks, 3 shapes), every schedule of '
                 'result delivery AND log-queue delivery (each parent-side get on an empty queue chooses which child, if any, has progressed to its next put); '
                 'oracle when run_tasks returns: each emitted fragment received exactly once; distinct_nontrivial = configurations'),
        'configurations_with_several_delivered_sets': multi,
        'capped_configurations': capped,
        'configurations_explored_to_one_deviation_only': n_bounded,
        'exhaustive': capped == 0,
    }
    res = Result('C19', 'model_checking', cov, assumptions=[
        'virtual multiprocessing layer (vmp.py): Manager-queue puts are synchronous, a child flushes its std streams after its target returns (BaseProcess._bootstrap)',
        'fragments (unique tokens) are counted, not whole records, because the stdout proxy joins buffered lines',
    ], violations=viols)
    if capped:
        res.notes.append(f'{capped} configurations hit the execution cap {cap}')
    return res


def replay(payload) -> int:
    silence_labtech()
    if payload.get('real'):
        r = run('quick', 0)
        keys = sorted({v.key for v in r.violations})
        print('violation keys now:', keys)
        return 1 if payload.get('clause') in keys else 0
    cfg = e3.E3Config.from_json(payload['cfg'])
    obs, msgs = run_one(cfg, Chooser(payload['choices']))
    print('cfg', cfg.brief())
    print('choices', payload['choices'])
    for ev in obs.vworld.events:
        print('  ', ev)
    print('received:', msgs)
    found = oracle(cfg, obs, msgs)
    for k, m in found:
        print(' ', k, m)
    return 1 if found else 0


if __name__ == '__main__':
    import sys
    if len(sys.argv) >= 6 and sys.argv[1] == '--real':
        real_dump(sys.argv[2], sys.argv[3], sys.argv[4], sys.argv[5])
