"""C12 - a save that fails leaves no entry that looks cached.

E6 fault enumeration on the real run_or_load_task -> cache.save path over
LocalStorage: every storage-operation point (open / each write call / close,
raise and partial-write modes), every executed line of cache.py / storage.py
inside save(), and results that cannot be serialised at several depths; x
cache formats x first save / overwrite.
"""
from __future__ import annotations

import json
import shutil

import labtech
import labtech.cache as lt_cache
from labtech.storage import LocalStorage

from ..common import HarnessError, Result, Violation, pmap, silence_labtech
from ..faults import FaultyStorage, InjectedFault, LineInjector, in_files
from ..savepath import ALT, CASES, cache_class, good_run, mk_task, recovery, tmpdir, value_of
from ..universe import WORLD


class SaveAborted(BaseException):
    """Not an Exception: what a signal handler raising SystemExit, or a cancellation, looks like to the save path."""


class _SaveGate:
    """Marks the dynamic extent of BaseCache.save (the code object of save itself is
    untouched, so its lines still produce LINE events)."""

    def __init__(self):
        self.depth = 0

    def __enter__(self):
        self.orig = lt_cache.BaseCache.save
        gate = self
        orig = self.orig

        def save(self_c, storage, task, task_result):
            gate.depth += 1
            try:
                return orig(self_c, storage, task, task_result)
            finally:
                gate.depth -= 1
        lt_cache.BaseCache.save = save
        return self

    def __exit__(self, *exc):
        lt_cache.BaseCache.save = self.orig
        return False


def one_case(args):
    """args = (case, overwrite, kind, at, mode). kind: 'baseline' | 'op' | 'line' | 'natural'."""
    case, overwrite, kind, at, mode = args[:5]
    same_lab = len(args) > 5 and args[5] == 'same-lab'
    # 'foreign': the key already holds a complete entry written by ANOTHER cache class with the same
    # key prefix and file names (the type's cache was switched); no bust_cache - the entry is no hit
    foreign = len(args) > 5 and args[5] == 'foreign'
    silence_labtech()
    d = tmpdir('c12_')
    try:
        ok = [value_of(case, 2)]
        if foreign:
            with cache_class(case, ALT):
                if good_run(d, case, 1) != value_of(case, 1):
                    raise HarnessError(f'preparation run (other cache class) failed for {case}')
            if labtech.Lab(storage=LocalStorage(d), runner_backend='serial', notebook=False).is_cached(mk_task(case)):
                # this tree takes the other class's entry as a hit: the history "re-run and save over it"
                # does not exist here (nothing C12 speaks about); the scenario is left out and counted
                return {'kind': 'foreign-is-a-hit', 'fired': False, 'reported_failed': False, 'reported_cached': True, 'viols': [], 'outcome': None}
        if overwrite:
            # the unserialisable cases are preceded by a good entry of the same task written directly
            if 'unpickl' in case or 'unserial' in case:
                from labtech.types import ResultMeta, TaskResult
                from ..spec import FIXED_META
                t0 = mk_task(case)
                t0._lt.cache.save(LocalStorage(d), t0, TaskResult(value='OLD', meta=FIXED_META))
                ok.append('OLD')
            else:
                v = good_run(d, case, 1)
                if v != value_of(case, 1):
                    raise HarnessError(f'preparation run failed for {case}')
                ok.append(value_of(case, 1))
        WORLD.reset(epoch=2)
        # 'fsspec': the failing save goes through the FsspecStorage reference provider (fsspec's local
        # file system, which writes in place); preparation and observation stay on LocalStorage (same layout)
        fsspec_inner = len(args) > 5 and args[5] == 'fsspec'
        if fsspec_inner:
            from ..storages import LocalFsspecStorage
        inner = LocalFsspecStorage(d) if fsspec_inner else LocalStorage(d)
        fs = FaultyStorage(inner, at=(at if kind == 'op' else None), mode=mode or 'raise',
                           defer_open=(at if kind == 'defer' else None))
        lab = labtech.Lab(storage=fs, runner_backend='serial', notebook=False, continue_on_failure=True)
        t = mk_task(case)
        if same_lab:
            # ONE Lab object for the whole history: it has seen (and loaded) the complete old entry
            # before the overwrite fails, and it is the one asked afterwards
            armed = (fs.at, fs.defer_open)
            fs.at = fs.defer_open = None
            seen = [lab.is_cached(mk_task(case)), len(lab.cached_tasks([type(t)])), len(lab.run_tasks([mk_task(case)], disable_progress=True, disable_top=True))]
            if seen != [True, 1, 1]:
                raise HarnessError(f'same-Lab preparation failed: {seen}')
            fs.at, fs.defer_open = armed
            fs.n = fs.opens = 0
            fs.trace.clear()
            WORLD.reset(epoch=2)
        inj = None
        outcome = None
        with _SaveGate() as gate:
            if kind in ('line', 'baseline'):
                inj = LineInjector(in_files('cache.py', 'storage.py', 'serialization.py'),
                                   at=(at if kind == 'line' else None),
                                   exc_factory=((lambda: SaveAborted('the save was aborted by a BaseException that is not an Exception'))
                                                if mode == 'base' else (lambda: InjectedFault('injected fault at a line of the save path'))),
                                   gate=lambda: gate.depth > 0)
                with inj:
                    try:
                        res = lab.run_tasks([t], bust_cache=overwrite, disable_progress=True, disable_top=True)
                        outcome = ('return', t in res)
                    except BaseException as e:  # noqa
                        outcome = ('raise', f'{type(e).__name__}: {e}')
            else:
                try:
                    res = lab.run_tasks([t], bust_cache=overwrite, disable_progress=True, disable_top=True)
                    outcome = ('return', t in res)
                except BaseException as e:  # noqa
                    outcome = ('raise', f'{type(e).__name__}: {e}')
        import gc
        gc.collect()
        if kind == 'baseline':
            return {'kind': 'baseline', 'ops': len(fs.trace), 'trace': [repr(x) for x in fs.trace], 'lines': inj.count, 'opens': fs.opens,
                    'sites': inj.sites, 'outcome': outcome}
        where = ''
        if kind == 'op':
            where = f'storage op #{at} {fs.fired} mode={mode}'
        elif kind == 'line':
            where = f'line event #{at} {inj.fired[0][1:3] if inj.fired else None}'
        elif kind == 'defer':
            where = f'data of open-for-write #{at} is lost at close (error surfaces only at flush/close)'
        viols = []
        fired = (kind == 'natural') or (kind == 'op' and fs.fired is not None) or (kind == 'line' and bool(inj.fired)) or kind == 'defer'
        if outcome[0] == 'raise':
            viols.append(('run-raised', f'run_tasks raised {outcome[1]} instead of reporting the task as failed'))
        reported_failed = (outcome == ('return', False))
        rec, reported_cached = recovery(d, case, ok)
        for key, msg in rec:
            viols.append((key, msg))
        if foreign:
            # the session that wrote the old entry (type configured with the other cache class) looks again
            rec2, rc2 = recovery(d, case, ok + [value_of(case, 1)], observer_cache=ALT)
            reported_cached = reported_cached or rc2
            for key, msg in rec2:
                viols.append((key, f'[observer configured with the cache class that wrote the old entry] {msg}'))
        if same_lab:
            # ask the very Lab object that performed the failed overwrite
            fs.at = fs.defer_open = None
            try:
                c = bool(lab.is_cached(mk_task(case)))
            except BaseException as e:  # noqa
                c = False
                viols.append(('is_cached-raised', f'[same Lab object] is_cached raised {type(e).__name__}: {e}'))
            if c:
                WORLD.reset(epoch=60)
                t3 = mk_task(case)
                try:
                    r3 = lab.run_tasks([t3], disable_progress=True, disable_top=True)
                    if t3 not in r3:
                        viols.append(('reported-cached-but-unloadable', '[same Lab object that performed the failed overwrite] reports the task as cached but cannot load it'))
                    elif not any(r3[t3] == v for v in ok) and not any(ev[0] == 'start' for ev in WORLD.log):
                        viols.append(('reported-cached-but-wrong-value', '[same Lab object] loaded a wrong value'))
                except BaseException as e:  # noqa
                    viols.append(('reported-cached-but-run-raised', f'[same Lab object] run_tasks raised {type(e).__name__}: {e}'))
        if fired and outcome == ('return', True) and kind == 'natural':
            viols.append(('unserialisable-reported-ok', 'the result cannot be serialised but the task was reported as successful'))
        where = ('[save through FsspecStorage over the local file system] ' + where) if fsspec_inner else where
        phase = 'over-entry-of-other-cache-class' if foreign else 'overwrite' if overwrite else 'first-save'
        return {'kind': kind, 'fired': fired, 'reported_failed': reported_failed, 'reported_cached': reported_cached,
                'viols': [(f'{k}:{phase}', f'{case} {phase} {where}: {m}') for k, m in viols]}
    finally:
        shutil.rmtree(d, ignore_errors=True)


def run(tier: str, seed: int) -> Result:
    silence_labtech()
    if tier == 'quick':
        inject_cases = ['pickle-small', 'json-small', 'pickle-multi', 'pickle-blob', 'json2-multi', 'two-multi']
        natural = ['pickle-unpicklable0', 'pickle-unpicklable1', 'pickle-unpicklable-deep', 'json-unserialisable']
        modes = ('raise',)
    else:
        inject_cases = ['pickle-small', 'json-small', 'pickle-multi', 'pickle-blob', 'json-multi', 'json2-small', 'json2-multi', 'pickle-nonascii', 'two-multi']
        natural = ['pickle-unpicklable0', 'pickle-unpicklable1', 'pickle-unpicklable-deep', 'json-unserialisable']
        modes = ('raise', 'partial')
    work = []
    foreign_skipped = []
    baselines = {}
    for case in inject_cases:
        for ow in (False, True):
            b = one_case((case, ow, 'baseline', None, None))
            if b['outcome'] != ('return', True):
                raise HarnessError(f'baseline save of {case} did not succeed: {b["outcome"]}')
            baselines[(case, ow)] = b
            for at in range(1, b['ops'] + 1):
                for m in modes:
                    if m == 'partial' and 'write' not in b['trace'][at - 1]:
                        continue
                    work.append((case, ow, 'op', at, m))
            for at in range(1, b['lines'] + 1):
                work.append((case, ow, 'line', at, None))
            for at in range(1, b['opens'] + 1):
                work.append((case, ow, 'defer', at, None))
            if case in ('pickle-small', 'pickle-multi'):
                # the save is aborted by a BaseException that is not an Exception (e.g. SystemExit raised by a signal handler)
                for at in range(1, b['lines'] + 1):
                    work.append((case, ow, 'line', at, 'base'))
            if ow and case in ('pickle-small', 'json-small'):
                for at in range(1, b['ops'] + 1):
                    work.append((case, ow, 'op', at, 'raise', 'same-lab'))
            if case in ('pickle-small', 'pickle-multi'):
                bs = one_case((case, ow, 'baseline', None, None, 'fsspec'))
                if bs['outcome'] == ('return', True):
                    for at in range(1, bs['ops'] + 1):
                        work.append((case, ow, 'op', at, 'raise', 'fsspec'))
                    for at in range(1, bs['opens'] + 1):
                        work.append((case, ow, 'defer', at, None, 'fsspec'))
                else:
                    foreign_skipped.append(f'{case} via FsspecStorage: {bs["outcome"]}')
            if not ow and case in ('pickle-small', 'pickle-multi'):
                # the save goes over a complete entry that another cache class wrote under the same key
                bf = one_case((case, False, 'baseline', None, None, 'foreign'))
                if bf['kind'] == 'foreign-is-a-hit' or bf['outcome'] != ('return', True):
                    # (an undisturbed save over such an entry that does not succeed on this tree is not what C12
                    # is about; there is no fault-free reference run to enumerate the points of)
                    foreign_skipped.append(f'{case}: {bf["kind"]} {bf["outcome"]}')
                    continue
                baselines[(case, 'foreign')] = bf
                for at in range(1, bf['ops'] + 1):
                    work.append((case, False, 'op', at, 'raise', 'foreign'))
                for at in range(1, bf['lines'] + 1):
                    work.append((case, False, 'line', at, None, 'foreign'))
                for at in range(1, bf['opens'] + 1):
                    work.append((case, False, 'defer', at, None, 'foreign'))
    for case in natural:
        for ow in (False, True):
            work.append((case, ow, 'natural', None, None))
    viols = []
    n = fired = failed_reports = cached_after = 0
    for r in pmap(one_case, work, chunksize=8):
        n += 1
        fired += 1 if r['fired'] else 0
        failed_reports += 1 if r['reported_failed'] else 0
        cached_after += 1 if r['reported_cached'] else 0
        for key, msg in r['viols']:
            viols.append(Violation('C12', key, msg, {'tier': tier, 'clause': key, 'msg': msg}, size=len(msg)))
    cov = {
        'evaluations': n,
        'distinct_nontrivial': fired,
        'rule': ('one evaluation = one real serial-backend run with exactly one injected fault (storage operation #j: open / write call / close; a handle whose data is lost at close; the same single faults with ONE Lab object performing and then judging the failed overwrite; the storage-operation faults also with the save going through FsspecStorage over the local file system of fsspec; or the '
                 'k-th executed line of cache.py/storage.py/serialization.py inside BaseCache.save, raising an OSError or a non-Exception BaseException) or a result that cannot be serialised (fails before / after one / '
                 'after many frames); x {PickleCache, JSON cache, a cache format with two result files} x {small, multi-frame, one large out-of-frame bytes object} x {first save, overwrite via bust_cache, save over a complete entry that another cache class with the same key prefix wrote - judged by observers of either class}; followed by the recovery '
                 'oracle on a fresh Lab (is_cached, cached_tasks, run_tasks); distinct_nontrivial = injections that actually fired'),
        'samples': [repr(w) for w in (work[0], work[len(work) // 2], work[-1])] + [
            {'baseline': k, 'storage_ops': v['ops'], 'line_events_in_save': v['lines']} for k, v in list(baselines.items())[:2]],
        'runs_reporting_task_failed': failed_reports,
        'entries_reported_cached_afterwards': cached_after,
        'other_cache_class_histories_skipped': foreign_skipped,
        'exhaustive': True,
    }
    return Result('C12', 'fault_enumeration', cov, assumptions=[
        'single fault per run; faults are OSError subclasses raised by the storage or at a line boundary of the save path',
        'LocalStorage on a tmpfs/scratch directory; serial backend',
    ], violations=viols)


def replay(payload) -> int:
    print(json.dumps(payload, indent=1))
    r = run(payload.get('tier', 'quick'), 0)
    keys = sorted({v.key for v in r.violations})
    print('violation keys now:', keys)
    return 1 if payload.get('clause') in keys else 0
