"""C13 - killing a task mid-save cannot poison the cache.

E6 crash enumeration: the real save path is executed over real files through a
logging raw layer; every prefix of the raw-operation log, three torn variants of
every write, and the 'all handed-over bytes on disk' variant at every
Python-level write boundary is materialised into a fresh directory and handed
to the recovery oracle.  Real SIGKILLs of a forked saver at traced lines
validate that the kernel leaves exactly one of the materialised states.
"""
from __future__ import annotations

import json
import os
import shutil
import signal
import sys

from labtech.storage import LocalStorage
from labtech.types import TaskResult

from ..common import HarnessError, Result, Violation, pmap, silence_labtech
from ..faults import LineInjector, RawLog, crash_states, dir_state, in_files, materialise, relog
from ..savepath import ALT, CASES, cache_class, good_run, mk_task, recovery, tmpdir, value_of
from ..spec import FIXED_META
from ..universe import WORLD


def record_log(case: str, overwrite: bool):
    """Execute the real save (through run_tasks, serial backend) under the raw layer.
    Returns (relative raw log, template dir or None, final dir)."""
    top = tmpdir('c13_')
    d = os.path.join(top, 'live')
    os.makedirs(d)
    LocalStorage(d)   # creates .gitignore before logging starts
    template = None
    if overwrite:
        # overwrite == 'foreign': the complete old entry was written by another cache class that shares
        # key prefix and file names; it is no hit for the type's own cache class, so no bust_cache
        with cache_class(case, ALT if overwrite == 'foreign' else None):
            if good_run(d, case, 1) != value_of(case, 1):
                raise HarnessError('preparation run failed')
        template = os.path.join(top, 'template')
        shutil.copytree(d, template)
    with RawLog(d) as rl:
        v = good_run(d, case, 2, bust=(overwrite is True))
    if v != value_of(case, 2) and overwrite == 'foreign':
        # this tree takes the other class's entry as a hit: there is no save to kill in this history
        shutil.rmtree(top, ignore_errors=True)
        return None, None, None
    if v != value_of(case, 2):
        raise HarnessError(f'logged save of {case} failed')
    log = relog(rl.log, d)
    # validation 1: replaying the complete log reproduces the directory the real save left
    full = os.path.join(top, 'full')
    materialise([op for op in log if op[0] != 'pywrite'], full, template)
    if template is None:
        open(os.path.join(full, '.gitignore'), 'w').write('*\n')
    if dir_state(full) != dir_state(d):
        # the code under test reaches the file system through an API the in-process layer does not
        # see: take the log from the kernel's side instead (no Python-level write boundaries then)
        shutil.rmtree(top, ignore_errors=True)
        if overwrite == 'foreign':
            return None, None, None    # (the strace path does not build this history; the scenario is skipped and counted)
        log, template, top, final = strace_log(case, overwrite)
        full = os.path.join(top, 'full')
        materialise(log, full, template)
        if template is None:
            open(os.path.join(full, '.gitignore'), 'w').write('*\n')
        if dir_state(full) != final:
            raise HarnessError(f'neither the in-process nor the strace raw-operation log of {case} reproduces the saved directory')
    return log, template, top


STRACE_LOG_SCRIPT = r"""
import os, shutil, sys
from verif_lt.common import silence_labtech
silence_labtech()
from verif_lt.savepath import good_run
from labtech.storage import LocalStorage
d, case, overwrite, template = sys.argv[1], sys.argv[2], sys.argv[3] == '1', sys.argv[4]
LocalStorage(d)
if overwrite:
    good_run(d, case, 1)
    shutil.copytree(d, template)
os.mkdir(os.path.join(os.path.dirname(d), 'MARK'))
v = good_run(d, case, 2, bust=overwrite)
os.mkdir(os.path.join(os.path.dirname(d), 'DONE'))
"""


def _unhex(txt: str) -> bytes:
    return bytes(int(h, 16) for h in __import__('re').findall(r'\\x([0-9a-f]{2})', txt))


def strace_log(case: str, overwrite: bool):
    """The raw-operation log taken from the kernel's point of view: the save runs in a fresh interpreter
    under strace (with the written bytes), whatever Python API the code under test uses to reach the
    file system.  Returns (log, template dir or None, top dir, final dir state)."""
    import re
    import subprocess
    top = tmpdir('c13x_')
    d = os.path.join(top, 'live')
    os.makedirs(d)
    template = os.path.join(top, 'template')
    script = os.path.join(top, 'save.py')
    open(script, 'w').write(STRACE_LOG_SCRIPT)
    out = os.path.join(top, 'trace.txt')
    p = subprocess.run(['strace', '-f', '-y', '-xx', '-s', '50000000', '-e',
                        'trace=openat,open,creat,mkdir,mkdirat,write,pwrite64,close,unlink,unlinkat,rmdir,rename,renameat,renameat2,ftruncate,truncate',
                        '-o', out, sys.executable, script, d, case, '1' if overwrite else '0', template], capture_output=True, text=True, timeout=600)
    if p.returncode != 0:
        raise HarnessError(f'strace run failed: {p.stderr[-600:]}')
    log = []
    seen_mark = False
    pre = d + os.sep
    writing: dict = {}
    for line in open(out):
        m = re.match(r'^\d+\s+(\w+)\((.*)\)\s+=\s+(-?\d+)', line, re.S)
        if not m:
            continue
        call, argtxt, ret = m.group(1), m.group(2), int(m.group(3))
        strs = []
        if call not in ('write', 'pwrite64'):
            strs = [_unhex(x).decode('utf-8', 'replace') for x in re.findall(r'"((?:\\x[0-9a-f]{2})*)"', argtxt)]
        if not seen_mark:
            seen_mark = call == 'mkdir' and any(x.endswith('MARK') for x in strs)
            continue
        if call == 'mkdir' and any(x.endswith('DONE') for x in strs):
            break
        if ret < 0:
            continue
        tail = line[m.end(2):]
        fdpaths = [(_unhex(x).decode('utf-8', 'replace') if '\\x' in x else x) for x in re.findall(r'<([^>]*)>', argtxt + tail)]
        paths = [x for x in strs + fdpaths if x.startswith(pre)]
        if not paths or paths[0].endswith('.gitignore'):
            continue
        rel = os.path.relpath(paths[0], d)
        if call in ('mkdir', 'mkdirat'):
            log.append(('mkdir', rel))
        elif call in ('openat', 'open', 'creat'):
            if 'O_WRONLY' in argtxt or 'O_RDWR' in argtxt or call == 'creat':
                how = 'trunc' if ('O_TRUNC' in argtxt or call == 'creat') else ('append' if 'O_APPEND' in argtxt else 'keep')
                writing[rel] = True
                log.append(('open', rel, how, True))
        elif call in ('write', 'pwrite64'):
            if writing.get(rel):
                data = _unhex(re.search(r'"((?:\\x[0-9a-f]{2})*)"', argtxt).group(1))[:ret]
                log.append(('write', rel, data))
        elif call == 'close':
            if writing.pop(rel, None):
                log.append(('close', rel))
        elif call in ('ftruncate', 'truncate'):
            log.append(('open', rel, 'trunc', True))
        elif call in ('unlink', 'rmdir', 'unlinkat'):
            log.append(('rmdir' if ('AT_REMOVEDIR' in argtxt or call == 'rmdir') else 'unlink', rel))
        elif call.startswith('rename'):
            log.append(('rename', rel, os.path.relpath(paths[-1], d)))
    return log, (template if overwrite else None), top, dir_state(d)


def eval_states(args):
    case, overwrite, log, template, states = args
    silence_labtech()
    ok = [value_of(case, 2)] + ([value_of(case, 1)] if overwrite else [])
    out = []
    n = cached = 0
    top = tmpdir('c13s_')
    try:
        for i, (label, ops) in enumerate(states):
            dest = os.path.join(top, f's{i}')
            materialise(ops, dest, template)
            rec, rep = recovery(dest, case, ok)
            if overwrite == 'foreign':
                # the session whose cache class wrote the old entry looks at the same crash state
                rec2, rep2 = recovery(dest, case, ok, observer_cache=ALT)
                rec = list(rec) + [(k, f'[observer configured with the cache class that wrote the old entry] {m}') for k, m in rec2]
                rep = rep or rep2
            n += 1
            cached += 1 if rep else 0
            phase = 'over-entry-of-other-cache-class' if overwrite == 'foreign' else 'overwrite' if overwrite else 'first-save'
            for key, msg in rec:
                out.append((f'{key}:{phase}', f'{case} {phase} crash state {label} ({crash_class(ops)}): {msg}', i))
            shutil.rmtree(dest, ignore_errors=True)
        return n, cached, out
    finally:
        shutil.rmtree(top, ignore_errors=True)


def crash_class(ops) -> str:
    files = {}
    for op in ops:
        if op[0] == 'write':
            files[os.path.basename(op[1])] = files.get(os.path.basename(op[1]), 0) + len(op[2])
        elif op[0] == 'open':
            files.setdefault(os.path.basename(op[1]), 0)
    return ','.join(f'{k}={v}B' for k, v in sorted(files.items())) or 'no-file-yet'


def real_kill(args):
    """Fork a child that performs the real save and SIGKILLs itself at line event k."""
    case, overwrite, k = args
    silence_labtech()
    top = tmpdir('c13k_')
    try:
        d = os.path.join(top, 'live')
        os.makedirs(d)
        LocalStorage(d)
        if overwrite:
            good_run(d, case, 1)
        t = mk_task(case)
        pid = os.fork()
        if pid == 0:
            try:
                def die():
                    os.kill(os.getpid(), signal.SIGKILL)
                    return RuntimeError('unreachable')
                inj = LineInjector(in_files('cache.py', 'storage.py'), at=k, exc_factory=die)
                with inj:
                    t._lt.cache.save(LocalStorage(d, with_gitignore=False), t, TaskResult(value=value_of(case, 2), meta=FIXED_META))
            finally:
                os._exit(0)
        _, status = os.waitpid(pid, 0)
        killed = os.WIFSIGNALED(status)
        ok = [value_of(case, 2)] + ([value_of(case, 1)] if overwrite else [])
        rec, rep = recovery(d, case, ok)
        phase = 'overwrite' if overwrite else 'first-save'
        return killed, dir_state(d), [(f'{key}:{phase}', f'{case} {phase} real SIGKILL at traced line #{k}: {msg}') for key, msg in rec]
    finally:
        shutil.rmtree(top, ignore_errors=True)


def same_lab_dump(storage_dir: str, kind: str, n: int, k: int, look: bool = True):
    """Isolated interpreter, ONE Lab object (fork backend): cache the task, re-run it with
    bust_cache while its worker kills itself at the k-th line of the save, then ask the same Lab."""
    import labtech
    from .. import dtypes as A
    silence_labtech()
    lab = labtech.Lab(storage=storage_dir, runner_backend='fork', max_workers=1, notebook=False, context={'epoch': 1})
    t = A.KSaver(kind=kind, n=n)
    r1 = lab.run_tasks([t], disable_progress=True, disable_top=True)
    # the caller looks at the cache between the runs (any answer remembered inside the Lab is now stale-able)
    # (look=False: or does not - then what the first run left in the parent's Lab / storage objects, which
    # never saw the save that happened in the worker, is all that the second run starts from)
    seen_before = [bool(lab.is_cached(t)), any(x == t for x in lab.cached_tasks([A.KSaver]))] if look else [True]
    r1b = lab.run_tasks([A.KSaver(kind=kind, n=n)], disable_progress=True, disable_top=True) if look else [None]
    lab.context['epoch'] = 2
    lab.context['kill_at'] = k
    r2 = lab.run_tasks([t], bust_cache=True, disable_progress=True, disable_top=True)
    lab.context['kill_at'] = None
    lab.context['epoch'] = 3
    out = {'first_ok': t in r1 and all(seen_before) and len(r1b) == 1, 'second_returned': t in r2}
    try:
        out['is_cached'] = bool(lab.is_cached(t))
    except BaseException as e:  # noqa
        out['is_cached_error'] = f'{type(e).__name__}: {e}'
        out['is_cached'] = False
    try:
        out['listed'] = any(x == t for x in lab.cached_tasks([A.KSaver]))
    except BaseException as e:  # noqa
        out['listed_error'] = f'{type(e).__name__}: {e}'
        out['listed'] = False
    if out['is_cached'] or out['listed']:
        t3 = A.KSaver(kind=kind, n=n)
        try:
            r3 = lab.run_tasks([t3], disable_progress=True, disable_top=True)
            out['loaded'] = t3 in r3
            out['epoch_loaded'] = r3[t3][4] if t3 in r3 else None
        except BaseException as e:  # noqa
            out['load_error'] = f'{type(e).__name__}: {e}'
            out['loaded'] = False
    # a later run with the very same task object (it has been through two runs and still carries what
    # they left on it): it loads a complete value or is executed again - it does not fail
    try:
        r4 = lab.run_tasks([t], disable_progress=True, disable_top=True)
        out['same_object_ok'] = t in r4 and r4[t][4] in (1, 2, 3) and r4[t][:4] == r1[t][:4] and r4[t][5] == A._result_payload(kind, n, r4[t][4])
    except BaseException as e:  # noqa
        out['same_object_error'] = f'{type(e).__name__}: {e}'
        out['same_object_ok'] = False
    print(json.dumps(out))


def same_lab_case(args):
    kind, n, k = args[:3]
    look = not (len(args) > 3 and args[3] == 'nolook')
    from ..realrun import py_env, run_isolated
    tmp = tmpdir('c13l_')
    try:
        rc, so, se = run_isolated([sys.executable, '-m', 'verif_lt.props.c13', '--same-lab', os.path.join(tmp, 'st'), kind, str(n), str(k), '1' if look else '0'],
                                  env=py_env(0), timeout=180)
        d = f'KSaver({kind},{n}) one Lab object (fork backend): cached{"" if look else " (the caller does not look at the cache in between)"}, then bust_cache re-run whose worker is SIGKILLed at save line #{k}'
        if rc != 0:
            return [('same-lab-run-failed:overwrite', f'{d}: exited {rc}: {se[-400:]}')], False
        o = json.loads(so.strip().splitlines()[-1])
        res = []
        if not o['first_ok']:
            res.append(('same-lab-first-run-not-cached:overwrite', f'{d}: the first (undisturbed) run was not cached / reloadable'))
        if 'is_cached_error' in o:
            res.append(('is_cached-raised:overwrite', f'{d}: {o["is_cached_error"]}'))
        if 'listed_error' in o:
            res.append(('cached_tasks-raised:overwrite', f'{d}: {o["listed_error"]}'))
        if o['is_cached'] or o['listed']:
            if not o.get('loaded'):
                res.append(('reported-cached-but-unloadable:overwrite', f'{d}: the same Lab reports the task as cached (is_cached={o["is_cached"]}, listed={o["listed"]}) '
                                                                         f'but loading fails {o.get("load_error", "")}'))
            elif o.get('epoch_loaded') not in (1, 2):
                res.append(('reported-cached-but-executed:overwrite', f'{d}: reported as cached but the value was recomputed'))
        if not o.get('same_object_ok'):
            res.append(('later-run-with-same-task-object-fails:overwrite', f'{d}: running the same task object once more afterwards fails or gives a wrong value {o.get("same_object_error", "")}'))
        return res, not o['second_returned']
    finally:
        shutil.rmtree(tmp, ignore_errors=True)


MAIN_KILL_SCRIPT = r"""
import json, os, sys
import labtech


@labtech.task
class MSaver:
    kind: str
    n: int

    def run(self):
        ctx = self.context or {}
        k = ctx.get('kill_at')
        if k:
            import signal
            from verif_lt.faults import LineInjector, in_files

            def die():
                os.kill(os.getpid(), signal.SIGKILL)
                return RuntimeError('unreachable')
            LineInjector(in_files('cache.py', 'storage.py'), at=k, exc_factory=die).__enter__()
        return ('R', 'MSaver', self.kind, self.n, ctx.get('epoch'), ['%04d' % i + 'x' * 100 for i in range(self.n)])


if __name__ == '__main__':
    from verif_lt.common import silence_labtech
    silence_labtech()
    storage, backend, k = sys.argv[1], sys.argv[2], int(sys.argv[3])
    kw = dict(disable_progress=True, disable_top=True)
    lab = labtech.Lab(storage=storage, runner_backend=backend, max_workers=1, notebook=False, context={'epoch': 1})
    t = MSaver(kind='small', n=3)
    r1 = lab.run_tasks([t], **kw)
    out = {'first_ok': t in r1 and bool(lab.is_cached(t))}
    lab.context = {'epoch': 2, 'kill_at': k}
    r2 = lab.run_tasks([t], bust_cache=True, **kw)
    out['second_returned'] = t in r2
    lab2 = labtech.Lab(storage=storage, runner_backend='serial', notebook=False, context={'epoch': 3})
    t2 = MSaver(kind='small', n=3)
    try:
        out['is_cached'] = bool(lab2.is_cached(t2))
        out['listed'] = any(x == t2 for x in lab2.cached_tasks([MSaver]))
    except BaseException as e:
        out['query_error'] = f'{type(e).__name__}: {e}'
        out['is_cached'] = out.get('is_cached', False)
        out['listed'] = False
    try:
        r3 = lab2.run_tasks([t2], **kw)
        out['later_run_ok'] = t2 in r3
        out['epoch_seen'] = r3[t2][4] if t2 in r3 else None
    except BaseException as e:
        out['later_run_ok'] = False
        out['later_run_error'] = f'{type(e).__name__}: {e}'
    print(json.dumps(out))
"""


def main_script_kill_case(args):
    """Task type defined in the script being run (module __main__), real process backend: cached,
    then a bust_cache re-run whose worker SIGKILLs itself at the k-th line of the save; a fresh Lab
    in the same script judges what is left."""
    backend, k = args
    from ..realrun import py_env, run_isolated
    tmp = tmpdir('c13m_')
    try:
        script = os.path.join(tmp, 'c13_main_script.py')
        with open(script, 'w') as f:
            f.write(MAIN_KILL_SCRIPT)
        rc, so, se = run_isolated([sys.executable, script, os.path.join(tmp, 'st'), backend, str(k)], env=py_env(0), timeout=240, cwd=tmp)
        d = f'MSaver defined in the main script, {backend} backend: cached, then bust_cache re-run whose worker is SIGKILLed at save line #{k}'
        if rc != 0:
            return [('main-script-run-failed:overwrite', f'{d}: exited {rc}: {se[-400:]}')], False
        o = json.loads(so.strip().splitlines()[-1])
        res = []
        if not o['first_ok']:
            res.append(('main-script-first-run-not-cached:overwrite', f'{d}: the first (undisturbed) run was not cached'))
        if 'query_error' in o:
            res.append(('is_cached-raised:overwrite', f'{d}: {o["query_error"]}'))
        if o['is_cached'] or o['listed']:
            if not o.get('later_run_ok'):
                res.append(('reported-cached-but-unloadable:overwrite', f'{d}: reported as cached (is_cached={o["is_cached"]}, listed={o["listed"]}) but a later run fails {o.get("later_run_error", "")}'))
            elif o.get('epoch_seen') not in (1, 2):
                res.append(('reported-cached-but-executed:overwrite', f'{d}: reported as cached but the value was recomputed (epoch {o.get("epoch_seen")})'))
        elif not o.get('later_run_ok'):
            res.append(('not-cached-but-later-run-fails:overwrite', f'{d}: not reported as cached, yet a later run fails {o.get("later_run_error", "")}'))
        return res, not o['second_returned']
    finally:
        shutil.rmtree(tmp, ignore_errors=True)


STRACE_SCRIPT = r"""
import os, sys
from verif_lt.common import silence_labtech
silence_labtech()
from verif_lt.savepath import good_run
from labtech.storage import LocalStorage
d, case, overwrite = sys.argv[1], sys.argv[2], sys.argv[3] == '1'
LocalStorage(d)
if overwrite:
    good_run(d, case, 1)
os.mkdir(os.path.join(os.path.dirname(d), 'MARK'))          # everything after this syscall is the save under observation
good_run(d, case, 2, bust=overwrite)
"""


def strace_case(args):
    """The raw-operation log is what the kernel sees: the same save in a fresh interpreter under
    strace must show the same sequence of mkdir / open(O_TRUNC) / write(n bytes) / close / unlink /
    rename system calls on the storage directory."""
    import re
    import subprocess
    case, overwrite = args
    silence_labtech()
    log, template, top = record_log(case, overwrite)
    want = []
    for op in log:
        if op[0] == 'pywrite' or op[1].endswith('.gitignore'):
            continue
        if op[0] == 'write':
            want.append(('write', op[1], len(op[2])))
        elif op[0] == 'open':
            want.append(('open', op[1]))
        elif op[0] == 'rename':
            want.append(('rename', op[1], op[2]))
        else:
            want.append((op[0], op[1]))
    tmp = tmpdir('c13t_')
    try:
        d = os.path.join(tmp, 'live')
        os.makedirs(d)
        script = os.path.join(tmp, 'save.py')
        open(script, 'w').write(STRACE_SCRIPT)
        out = os.path.join(tmp, 'trace.txt')
        p = subprocess.run(['strace', '-f', '-y', '-s', '0', '-e', 'trace=openat,open,creat,mkdir,mkdirat,write,close,unlink,unlinkat,rmdir,rename,renameat,renameat2',
                            '-o', out, sys.executable, script, d, case, '1' if overwrite else '0'], capture_output=True, text=True, timeout=300)
        if p.returncode != 0:
            raise HarnessError(f'strace run failed: {p.stderr[-600:]}')
        got = []
        seen_mark = False
        pre = d + os.sep
        for line in open(out):
            if not seen_mark:
                seen_mark = 'MARK' in line and 'mkdir' in line
                continue
            m = re.match(r'^\d+\s+(\w+)\((.*)\)\s+=\s+(-?\d+)', line)
            if not m or int(m.group(3)) < 0:
                continue
            call, argtxt, ret = m.group(1), m.group(2), int(m.group(3))
            paths = [x for x in re.findall(r'"([^"]*)"', argtxt)] + re.findall(r'<([^>]*)>', argtxt + line[m.end(2):])
            paths = [x for x in paths if x.startswith(pre)]
            if not paths or paths[0].endswith('.gitignore'):
                continue
            rel = os.path.relpath(paths[0], d)
            if call in ('mkdir', 'mkdirat'):
                got.append(('mkdir', rel))
            elif call in ('openat', 'open', 'creat'):
                if 'O_WRONLY' in argtxt or 'O_RDWR' in argtxt or call == 'creat':
                    got.append(('open', rel))
            elif call == 'write':
                got.append(('write', rel, ret))
            elif call == 'close':
                got.append(('close', rel))
            elif call in ('unlink', 'rmdir') or (call == 'unlinkat'):
                got.append(('rmdir' if ('AT_REMOVEDIR' in argtxt or call == 'rmdir') else 'unlink', rel))
            elif call.startswith('rename'):
                got.append(('rename', rel, os.path.relpath(paths[-1], d)))
        # closes of handles that were only read are not in the raw log: keep closes that follow an open of the same file
        opened = set()
        flt = []
        for op in got:
            if op[0] == 'open':
                opened.add(op[1])
                flt.append(op)
            elif op[0] == 'close':
                if op[1] in opened:
                    opened.discard(op[1])
                    flt.append(op)
            elif op[0] == 'write' and op[1] not in opened:
                continue
            else:
                flt.append(op)
        return case, overwrite, want, flt
    finally:
        shutil.rmtree(tmp, ignore_errors=True)
        shutil.rmtree(top, ignore_errors=True)


def count_lines(case):
    top = tmpdir('c13c_')
    try:
        t = mk_task(case)
        inj = LineInjector(in_files('cache.py', 'storage.py'), at=None)
        with inj:
            t._lt.cache.save(LocalStorage(top), t, TaskResult(value=value_of(case, 2), meta=FIXED_META))
        return inj.count
    finally:
        shutil.rmtree(top, ignore_errors=True)


def run(tier: str, seed: int) -> Result:
    silence_labtech()
    cases = ['pickle-small', 'json-small', 'pickle-blob', 'pickle-nonascii', 'json2-small', 'two-multi'] + (['pickle-multi'] if tier == 'quick' else ['pickle-multi', 'json-multi'])
    viols = []
    n_states = n_cached = 0
    tops = []
    samples = []
    work = []
    foreign_skipped: list = []
    state_dirs: dict = {}
    try:
        for case in cases:
            for ow in (False, True) + (('foreign',) if case in ('pickle-small', 'pickle-multi') else ()):
                log, template, top = record_log(case, ow)
                if log is None:
                    foreign_skipped.append(case)
                    continue
                tops.append(top)
                states = crash_states(log)
                raw_ops = [op for op in log if op[0] != 'pywrite']
                if len(samples) < 3:
                    samples.append({'case': case, 'overwrite': ow, 'raw_ops': [(op[0], op[1]) + ((len(op[2]),) if op[0] == 'write' else ()) for op in raw_ops],
                                    'crash_states': len(states)})
                # the set of states a real kill may leave (prefixes only), for validating real kills
                state_dirs[(case, ow)] = (raw_ops, template)
                for i in range(0, len(states), 25):
                    work.append((case, ow, log, template, states[i:i + 25]))
        for n, c, res in pmap(eval_states, work):
            n_states += n
            n_cached += c
            for key, msg, i in res:
                viols.append(Violation('C13', key, msg, {'tier': tier, 'clause': key, 'msg': msg}, size=i))
        # real kills
        kills = []
        for case in (cases if tier != 'quick' else ['pickle-small']):
            nl = count_lines(case)
            ks = range(1, nl + 1) if tier != 'quick' else sorted(set(range(1, nl + 1, max(1, nl // 6))))
            for ow in (False, True):
                for k in ks:
                    kills.append((case, ow, k))
        n_kills = validated = 0
        deferred_error = None
        for (case, ow, k), (killed, state, res) in zip(kills, pmap_ordered(real_kill, kills)):
            if not killed:
                continue
            n_kills += 1
            raw_ops, template = state_dirs[(case, ow)]
            if state_in_prefixes(state, raw_ops, template, ow):
                validated += 1
            elif not viols and deferred_error is None:
                # (decided at the end: the histories below may still show what this tree does wrong)
                deferred_error = f'real SIGKILL of {case} (overwrite={ow}) at line #{k} left a state that is not a prefix of the raw-operation log'
            for key, msg in res:
                viols.append(Violation('C13', key, msg, {'tier': tier, 'clause': key, 'msg': msg}, size=k))
        # one Lab object surviving a worker killed mid-overwrite (real fork backend)
        nl = count_lines('pickle-small')
        ks = list(range(1, nl + 1)) if tier != 'quick' else list(range(1, nl + 1, 5))
        n_same = n_same_killed = 0
        for res, killed in pmap(same_lab_case, [('small', 3, k) for k in ks] + [('small', 3, k, 'nolook') for k in range(1, nl + 1)] + ([('multi', 200, k) for k in ks] + [('multi', 200, k, 'nolook') for k in ks] if tier != 'quick' else [])):
            n_same += 1
            n_same_killed += 1 if killed else 0
            for key, msg in res:
                viols.append(Violation('C13', key, msg, {'tier': tier, 'clause': key, 'msg': msg}, size=2000))
        # the raw-operation log against the system calls of the same save in a fresh interpreter
        n_strace = 0
        if shutil.which('strace'):
            for case, ow, want, got in pmap(strace_case, [(c, ow) for c in (cases if tier != 'quick' else ['pickle-small']) for ow in (False, True)]):
                n_strace += 1
                if want != got and not viols:
                    # (with violations already found the verdict stands; the mismatch then only says that
                    # this tree reaches the file system in a way the in-process log does not follow)
                    raise HarnessError(f'raw-operation log of {case} (overwrite={ow}) differs from the system calls strace sees: log {want[:12]} ... strace {got[:12]} ...')
        # task types defined in the main script, real spawn (and fork) workers killed mid-overwrite
        mk = [('spawn', k) for k in range(1, nl + 1)] + [('fork', k) for k in (range(1, nl + 1, 3) if tier != 'quick' else range(3, nl + 1, 17))]
        n_main = n_main_killed = 0
        for res, killed in pmap(main_script_kill_case, mk):
            n_main += 1
            n_main_killed += 1 if killed else 0
            for key, msg in res:
                viols.append(Violation('C13', key, msg, {'tier': tier, 'clause': key, 'msg': msg}, size=2500))
    finally:
        for t in tops:
            shutil.rmtree(t, ignore_errors=True)
    cov = {
        'same_lab_real_kill_histories': n_same,
        'same_lab_histories_in_which_the_worker_died': n_same_killed,
        'raw_logs_equal_to_the_system_calls_seen_by_strace': n_strace,
        'main_script_real_kill_histories': n_main,
        'main_script_histories_in_which_the_worker_died': n_main_killed,
        'evaluations': n_states + n_kills + n_same + n_main,
        'distinct_nontrivial': n_states,
        'rule': ('crash states = every prefix of the raw-operation log (mkdir/open-trunc/write/close/unlink/rmdir/rename) of a real save + every subset of a run of unlinks in one directory + 3 torn variants per write + flushed variant per '
                 'Python-level write call; x {pickle small, json small, pickle multi-frame (+json multi thorough), a cache format that keeps a multi-frame result in two files} x {first save, overwrite; pickle small / multi also: save over a complete entry that another cache class with the same key prefix wrote, judged by observers of either class}; each materialised and '
                 'checked by the recovery oracle (is_cached, cached_tasks, run_tasks on a fresh Lab); real SIGKILLs of a forked saver at traced lines must leave one '
                 'of the prefix states; plus histories on ONE Lab object over the real fork backend (cache, look at the cache through the Lab or not, re-run with bust_cache whose worker SIGKILLs itself at save line k, then ask the same Lab), and the same history with a task type defined in the main script on the real spawn / fork backends; '
                 'distinct_nontrivial = materialised crash states'),
        'samples': samples,
        'real_kills': n_kills,
        'real_kill_states_matching_a_materialised_prefix': validated,
        'states_reported_cached': n_cached,
        'other_cache_class_histories_skipped': foreign_skipped,
        'exhaustive': True,
    }
    if deferred_error is not None and not viols:
        raise HarnessError(deferred_error)
    return Result('C13', 'fault_enumeration', cov, assumptions=[
        'process kills only (page cache survives): completed write() calls are durable, a write may be torn at any byte',
        'LocalStorage; the raw-operation log is validated by replaying it and by real SIGKILLs',
    ], violations=viols)


def pmap_ordered(fn, items):
    # small lists; keep order by tagging
    tagged = list(enumerate(items))
    res = {}
    for i, r in pmap(_tag_call, [(fn, i, it) for i, it in tagged]):
        res[i] = r
    return [res[i] for i in range(len(items))]


def _tag_call(a):
    fn, i, it = a
    return i, fn(it)


def state_in_prefixes(state: dict, raw_ops, template, overwrite) -> bool:
    top = tmpdir('c13v_')
    try:
        for i in range(len(raw_ops) + 1):
            dest = os.path.join(top, f'p{i}')
            materialise(raw_ops[:i], dest, template)
            if not template:
                open(os.path.join(dest, '.gitignore'), 'w').write('*\n')
            same = dir_state(dest) == state
            shutil.rmtree(dest, ignore_errors=True)
            if same:
                return True
        return False
    finally:
        shutil.rmtree(top, ignore_errors=True)


def replay(payload) -> int:
    print(json.dumps(payload, indent=1))
    r = run(payload.get('tier', 'quick'), 0)
    keys = sorted({v.key for v in r.violations})
    print('violation keys now:', keys)
    return 1 if payload.get('clause') in keys else 0


if __name__ == '__main__':
    if len(sys.argv) >= 6 and sys.argv[1] == '--same-lab':
        same_lab_dump(sys.argv[2], sys.argv[3], int(sys.argv[4]), int(sys.argv[5]), look=(len(sys.argv) < 7 or sys.argv[6] == '1'))
