"""C06 - a cache hit returns the result and metadata stored for that very task.

History run(S1, backend b1) -> is_cached -> run(S2, backend b2):
 (i)  in-process serial slice over the whole value / result-shape / clock alphabet
      (fake datetime patched into labtech.runners.base), in-memory and local storage;
 (ii) every ordered pair of real backends {serial, fork, spawn}^2 with both runs in
      fresh interpreters under different hash seeds, sharing a LocalStorage dir.
"""
from __future__ import annotations

import itertools
import json
import os
import shutil
import sys
import tempfile
from datetime import datetime, timedelta

import labtech
import labtech.runners.base as lt_base
from labtech.types import ResultMeta

from .. import dtypes as A
from .. import dtypes_b as B
from ..common import HarnessError, Result, Violation, pmap, silence_labtech
from ..paramtree import build, canon, describe, trees
from ..realrun import py_env, run_isolated
from ..storages import LocalFsspecStorage, LocalStorage, MemStorage
from ..universe import WORLD
from .c07 import FULL, TINY

TYPES = {'Foo': A.Foo, 'FooBar': A.FooBar, 'BFoo': B.Foo, 'JFoo': A.JFoo, 'P2': A.P2, 'Leaf': A.Leaf, 'BLeaf': B.Leaf,
         'NoCacheT': A.NoCacheT, 'PFoo': A.PFoo}

CLOCKS = [
    (datetime(2024, 1, 1, 0, 0, 0), timedelta(0)),
    (datetime(2024, 2, 29, 23, 59, 59, 999999), timedelta(microseconds=1)),
    (datetime(1999, 12, 31, 12, 0, 0, 1), timedelta(seconds=0.1) + timedelta(seconds=0.2)),
    (datetime(2030, 6, 15, 8, 30, 0, 500000), timedelta(days=1, microseconds=1)),
    (datetime(2024, 3, 10, 2, 30, 0), timedelta(seconds=12345.678901)),
]


class FakeDatetime(datetime):
    script: list = []

    @classmethod
    def now(cls, tz=None):
        return cls.script.pop(0)


def task_sets(which: int):
    """Deterministic task sets for the cross-process slice (rebuilt identically in each interpreter).
    No two tasks of a set compare equal (1 == True == 1.0 would be de-duplicated within one run)."""
    if which == 0:
        leaf = A.Leaf(v=1)
        return [A.Foo(p=v) for v in (None, True, 2, 3.5, '1', 'é', A.Color.RED, A.Shade.RED, B.Color.RED)] + [
            A.Foo(p=[leaf, {'a': A.Color.GREEN, 'b': B.Leaf(v='x')}]), A.FooBar(p=leaf), B.Foo(p=leaf),
            A.JFoo(p={'k': (1, 2)}), A.P2(p=[1.5, float('inf')]), A.PFoo(p='post'),
            A.Foo(p=float('nan')), A.Foo(p=['é', {'k': float('nan'), 'z': 'ü€'}], q=A.Leaf(v=float('nan'))), A.JFoo(p='日本'),
            A.Shape(kind='nested', n=3), A.Shape(kind='large', n=200), A.Shape(kind='enum', n=0), A.Shape(kind='none', n=0)] + [
            # results that change between executions: a value, then None / falsy values, then a value again
            A.Flip(kind=k, p=1) for k in ('none-second', 'none-first', 'falsy')] + [A.JFlip(kind='none-second', p=2)] + [
            A.Fit__v2(p=1), A.Fit_(p=[A.Leaf(v='u')]), A.EFoo(p=1), A.ABFoo(p='x', q=A.Fit__v2(p=2))]
    if which == 1:
        return [A.Foo(p=v, q=w) for v in (0, '', 'a/b') for w in (None, 2 ** 63, ' ')] + [
            A.Foo(p={'a': {'b': [A.Leaf(v=A.Color.RED)]}}), A.Shape(kind='scalar', n=7), A.Shape(kind='large', n=1200)]
    ts = trees(1, TINY, width=2, task_types=('Leaf', 'BLeaf'), inner_leaves=TINY)
    return [A.Foo(p=build(t, types=TYPES)) for t in ts[::2]] + [A.JFoo(p=build(t, types=TYPES)) for t in ts[1::4]]


def dump_run(storage_dir: str, backend: str, which: int):
    """Executed in a fresh interpreter: run the set, print JSON of observations."""
    silence_labtech()
    tasks = task_sets(which)
    lab = labtech.Lab(storage=storage_dir, runner_backend=backend, max_workers=3, notebook=False)
    pre = [lab.is_cached(t) for t in tasks]
    res = lab.run_tasks(tasks, disable_progress=True, disable_top=True)
    out = []
    for t, was in zip(tasks, pre):
        m = t.result_meta
        out.append({'key': t.cache_key, 'canon': repr(canon(t)), 'value': repr(res.get(t, '<missing>')), 'cached_before': was,
                    'cached_after': lab.is_cached(t),
                    'meta': None if m is None else [m.start.isoformat() if m.start else None,
                                                    m.duration.total_seconds() if m.duration is not None else None, repr(m.duration)]})
    print(json.dumps(out))


def cross_case(args):
    b1, b2, which, s1, s2 = args
    tmp = tempfile.mkdtemp(prefix='c06x_')
    out = []
    try:
        wf = os.path.join(tmp, 'world.log')
        sd = os.path.join(tmp, 'storage')
        runs = []
        for i, (b, s, epoch) in enumerate(((b1, s1, 1), (b2, s2, 2))):
            open(wf, 'w').close()
            env = py_env(s, VERIF_WORLD_FILE=wf, VERIF_EPOCH=epoch)
            if i == 1 and s2 % 2 == 0:
                # "a new process" may also live in another locale: the second interpreter of every
                # other history runs in the C locale with UTF-8 mode and locale coercion switched off
                env.update(LC_ALL='C', LANG='C', PYTHONUTF8='0', PYTHONCOERCECLOCALE='0')
                env.pop('PYTHONIOENCODING', None)
            rc, so, se = run_isolated([sys.executable, '-m', 'verif_lt.props.c06', '--dump', sd, b, str(which)],
                                      env=env, timeout=180)
            if rc != 0:
                return [(f'run-failed:{b}', f'run {i + 1} with backend {b} (seed {s}) exited {rc}: {se[-600:]}', 1)], 0
            started = [json.loads(l)[3][2] for l in open(wf) if l.strip() and json.loads(l)[2] == 'start']
            runs.append((json.loads(so.strip().splitlines()[-1]), started))
        (r1, st1), (r2, st2) = runs
        n = 0
        for a, b in zip(r1, r2):
            n += 1
            d = f'{a["canon"]} first={b1}/seed{s1} second={b2}/seed{s2}'
            nocache = "'NoCacheT'" in a['canon']
            if a['key'] != b['key']:
                out.append(('key-differs-across-processes', f'{d}: {a["key"]} vs {b["key"]}', 1))
            if nocache:
                continue
            if not a['cached_after']:
                out.append(('not-cached-after-run', f'{d}: is_cached false after the first run', 1))
            if not b['cached_before']:
                out.append(('not-cached-in-new-process', f'{d}: is_cached false in the second process', 1))
            if b['key'] in st2:
                out.append(('re-executed', f'{d}: run() called again in the second run', 1))
            v1, v2 = a['value'], b['value']
            if v1 != v2:
                out.append(('value-differs', f'{d}: first run {v1[:200]} second run {v2[:200]}', 1))
            if a['canon'] not in v1.replace('\\\\', '\\') and repr(a['canon'])[1:-1] not in v1:
                pass
            if a['meta'] != b['meta'] or a['meta'] is None:
                out.append(('meta-differs', f'{d}: recorded {a["meta"]} loaded {b["meta"]}', 1))
        return out, n
    finally:
        shutil.rmtree(tmp, ignore_errors=True)


def inproc_case(args):
    storage_kind, items = args
    silence_labtech()
    out = []
    n = 0
    tmp = None
    orig_dt = lt_base.datetime
    lt_base.datetime = FakeDatetime
    try:
        for tn, tree, clock in items:
            if storage_kind == 'mem':
                storage = MemStorage()
            else:
                tmp = tempfile.mkdtemp(prefix='c06_')
                storage = LocalStorage(tmp) if storage_kind == 'local' else LocalFsspecStorage(tmp)
            try:
                mk = (lambda: TYPES[tn](p=build(tree, types=TYPES))) if tn != 'Shape' else (lambda: A.Shape(kind=tree[0], n=tree[1]))
                t1 = mk()
                d = f'[{storage_kind}] {tn}({describe(tree) if tn != "Shape" else tree}) clock={clock}'
                ndeps = len(_all_tasks(t1))
                start, dur = CLOCKS[clock]
                FakeDatetime.script = [x for _ in range(ndeps) for x in (start, start + dur)]
                WORLD.reset(epoch=1)
                lab1 = labtech.Lab(storage=storage, runner_backend='serial', notebook=False)
                r1 = lab1.run_tasks([t1], disable_progress=True, disable_top=True)
                n += 1
                if t1 not in r1:
                    out.append(('first-run-failed', f'{d}: no result from the first run', 1))
                    continue
                v1 = r1[t1]
                want_meta = ResultMeta(start=start, duration=dur)
                if t1.result_meta != want_meta:
                    out.append(('meta-not-recorded', f'{d}: result_meta after execution {t1.result_meta} want {want_meta}', 1))
                cacheable = not isinstance(t1._lt.cache, labtech.cache.NullCache)
                t2 = mk()
                lab2 = labtech.Lab(storage=storage, runner_backend='serial', notebook=False)
                if cacheable and not lab2.is_cached(t2):
                    out.append(('not-cached-after-run', f'{d}: is_cached false after a successful run', 1))
                    continue
                WORLD.reset(epoch=2)
                FakeDatetime.script = [datetime(2000, 1, 1), datetime(2000, 1, 1, 0, 0, 9)] * (ndeps + 1)
                if cacheable and n % 2 == 0:
                    # every other item is fetched through the single-task entry point
                    r2 = {t2: lab2.run_task(t2, disable_progress=True, disable_top=True)}
                else:
                    r2 = lab2.run_tasks([t2], disable_progress=True, disable_top=True)
                started = [ev for ev in WORLD.log if ev[0] == 'start']
                if not cacheable:
                    if not started:
                        out.append(('uncached-type-not-rerun', f'{d}: cache=None type was not re-executed', 1))
                    continue
                if started:
                    out.append(('re-executed', f'{d}: run() called again although cached: {started[:2]}', 1))
                if t2 not in r2 or r2[t2] != v1:
                    out.append(('value-differs', f'{d}: loaded {r2.get(t2)!r} stored {v1!r}', 1))
                elif r2[t2][3] != canon(t2):
                    out.append(('foreign-result', f'{d}: loaded a result that was stored for {r2[t2][3]}', 1))
                if t2.result_meta != want_meta:
                    out.append(('meta-differs', f'{d}: loaded result_meta {t2.result_meta} recorded {want_meta}', 1))
            finally:
                if isinstance(storage, MemStorage):
                    storage.release()
                if tmp:
                    shutil.rmtree(tmp, ignore_errors=True)
                    tmp = None
        return out, n
    finally:
        lt_base.datetime = orig_dt


def group_case(args):
    """Many tasks share one storage: run them all, then reload each through a fresh Lab.
    A load must never return a result that was stored for a different task."""
    storage_kind, items, clock = args
    silence_labtech()
    out = []
    tmp = None
    orig_dt = lt_base.datetime
    lt_base.datetime = FakeDatetime
    if storage_kind == 'mem':
        storage = MemStorage()
    else:
        tmp = tempfile.mkdtemp(prefix='c06g_')
        storage = LocalStorage(tmp)
    try:
        # every task gets its own run_tasks call (tasks that compare equal - 1 == True == 1.0,
        # 'RED' == StrEnumLike.RED - are one task to a single call, but distinct tasks to the cache)
        def mk(it):
            return TYPES[it[0]](p=build(it[1], types=TYPES))
        start, dur = CLOCKS[clock]
        want_meta = ResultMeta(start=start, duration=dur)
        first = []
        for it in items:
            t = mk(it)
            d = f'[{storage_kind}, shared storage] {it[0]}({describe(it[1])})'
            FakeDatetime.script = [start, start + dur] * 8
            WORLD.reset(epoch=1)
            r = labtech.Lab(storage=storage, runner_backend='serial', notebook=False).run_tasks([t], disable_progress=True, disable_top=True)
            v = r.get(t)
            first.append(v)
            if isinstance(t._lt.cache, labtech.cache.NullCache):
                continue
            if v is None or v[3] != canon(t):
                out.append(('foreign-result', f'{d}: first request returned a result stored for another task: {str(v)[:160]}', 1))
        for it, v1 in zip(items, first):
            t = mk(it)
            if isinstance(t._lt.cache, labtech.cache.NullCache):
                continue
            d = f'[{storage_kind}, shared storage] {it[0]}({describe(it[1])})'
            WORLD.reset(epoch=2)
            FakeDatetime.script = [datetime(2000, 1, 1), datetime(2000, 1, 1, 0, 0, 9)] * 8
            lab2 = labtech.Lab(storage=storage, runner_backend='serial', notebook=False)
            r2 = lab2.run_tasks([t], disable_progress=True, disable_top=True)
            if any(ev[0] == 'start' and ev[1][2] == t.cache_key for ev in WORLD.log):
                out.append(('re-executed', f'{d}: executed again although cached', 1))
            if t not in r2 or r2[t] != v1:
                out.append(('value-differs', f'{d}: loaded {str(r2.get(t))[:120]} stored {str(v1)[:120]}', 1))
            elif r2[t][3] != canon(t):
                out.append(('foreign-result', f'{d}: loaded a result stored for {r2[t][3]}', 1))
            if t.result_meta != want_meta:
                out.append(('meta-differs', f'{d}: loaded result_meta {t.result_meta} recorded {want_meta}', 1))
        return out, len(items)
    finally:
        lt_base.datetime = orig_dt
        if isinstance(storage, MemStorage):
            storage.release()
        if tmp:
            shutil.rmtree(tmp, ignore_errors=True)


def two_storage_case(args):
    """The same task cached in two storages with different recorded metadata; each Lab must
    return what *its* storage holds (in-process state keyed by task only would mix them up)."""
    items = args
    silence_labtech()
    out = []
    orig_dt = lt_base.datetime
    lt_base.datetime = FakeDatetime
    sa = sb = None
    try:
        for tn, tree, clock in items:
            for st in (sa, sb):
                if st is not None:
                    st.release()
            sa, sb = MemStorage(), MemStorage()
            mk = (lambda: TYPES[tn](p=build(tree, types=TYPES)))
            d = f'{tn}({describe(tree)}) in two storages'
            metas = []
            for st, c, ep in ((sa, clock, 1), (sb, (clock + 1) % len(CLOCKS), 2)):
                start, dur = CLOCKS[c]
                FakeDatetime.script = [start, start + dur] * 8
                WORLD.reset(epoch=ep)
                labtech.Lab(storage=st, runner_backend='serial', notebook=False).run_tasks([mk()], disable_progress=True, disable_top=True)
                metas.append(ResultMeta(start=start, duration=dur))
            for order in ((0, 1), (1, 0), (0, 1)):
                for i in order:
                    st = (sa, sb)[i]
                    t = mk()
                    WORLD.reset(epoch=9)
                    FakeDatetime.script = [datetime(2001, 1, 1)] * 16
                    lab = labtech.Lab(storage=st, runner_backend='serial', notebook=False)
                    ct = [x for x in lab.cached_tasks([type(t)]) if x == t]
                    r = lab.run_tasks([t], disable_progress=True, disable_top=True)
                    if any(ev[0] == 'start' for ev in WORLD.log):
                        out.append(('re-executed', f'{d}: executed again', 1))
                    if t.result_meta != metas[i]:
                        out.append(('meta-from-other-storage', f'{d}: storage {"AB"[i]} returned result_meta {t.result_meta}, it recorded {metas[i]}', 1))
                    if ct and ct[0].result_meta != metas[i]:
                        out.append(('meta-from-other-storage', f'{d}: cached_tasks on storage {"AB"[i]} gives result_meta {ct[0].result_meta}, recorded {metas[i]}', 1))
                    if t not in r or r[t][5] != i + 1:
                        out.append(('value-from-other-storage', f'{d}: storage {"AB"[i]} returned {str(r.get(t))[:100]}', 1))
        return out, len(items)
    finally:
        lt_base.datetime = orig_dt
        for st in (sa, sb):
            if st is not None:
                st.release()


def reuse_dump(storage_dir: str, backend: str, which: int):
    """Fresh interpreter: ONE Lab object used for run -> is_cached -> cached_tasks -> run(bust) -> run."""
    silence_labtech()
    import json as _json
    # the Lab is given a *relative* storage path; later the process changes its working directory
    os.makedirs(os.path.dirname(storage_dir), exist_ok=True)
    os.chdir(os.path.dirname(storage_dir))
    lab = labtech.Lab(storage=os.path.basename(storage_dir), runner_backend=backend, max_workers=2, notebook=False)
    wf = os.environ['VERIF_WORLD_FILE']
    out = []

    def started():
        return [_json.loads(l)[3][2] for l in open(wf) if l.strip() and _json.loads(l)[2] == 'start']
    phases = [('first', False), ('again', False), ('bust', True), ('after-bust', False)]
    for name, bust in phases:
        open(wf, 'w').close()
        if name == 'again':
            os.chdir(tempfile.gettempdir())
        tasks = task_sets(which)
        pre = [lab.is_cached(t) for t in tasks]
        listed = {type(t) for t in tasks}
        ct = {x.cache_key: x.result_meta for ty in listed for x in lab.cached_tasks([ty])}
        res = lab.run_tasks(tasks, **({'bust_cache': True} if bust else {}), disable_progress=True, disable_top=True)
        st = started()
        out.append({'phase': name, 'rows': [
            {'key': t.cache_key, 'canon': repr(canon(t)), 'cached_before': p, 'executed': t.cache_key in st, 'value': repr(res.get(t, '<missing>')),
             'meta': None if t.result_meta is None else [t.result_meta.start.isoformat(), t.result_meta.duration.total_seconds()],
             'listed_meta': None if ct.get(t.cache_key) is None else [ct[t.cache_key].start.isoformat(), ct[t.cache_key].duration.total_seconds()]}
            for t, p in zip(tasks, pre)]})
    print(_json.dumps(out))


def reuse_case(args):
    backend, which, seed = args
    tmp = tempfile.mkdtemp(prefix='c06r_')
    out = []
    try:
        wf = os.path.join(tmp, 'world.log')
        open(wf, 'w').close()
        rc, so, se = run_isolated([sys.executable, '-m', 'verif_lt.props.c06', '--reuse', os.path.join(tmp, 'st'), backend, str(which)],
                                  env=py_env(seed, VERIF_WORLD_FILE=wf, VERIF_EPOCH=1), timeout=240)
        if rc != 0:
            return [(f'run-failed:{backend}', f'reused-Lab history with backend {backend} exited {rc}: {se[-600:]}', 1)], 0
        phases = {p['phase']: p['rows'] for p in json.loads(so.strip().splitlines()[-1])}
        n = 0
        for i, row in enumerate(phases['first']):
            if "'NoCacheT'" in row['canon']:
                continue
            n += 1
            d = f'{row["canon"]} backend={backend}, one Lab object reused'
            again, bust, after = phases['again'][i], phases['bust'][i], phases['after-bust'][i]
            if not again['cached_before']:
                out.append(('not-cached-after-run', f'{d}: is_cached false after the first run', 1))
            if again['executed']:
                out.append(('re-executed', f'{d}: second run_tasks on the same Lab executed run() again', 1))
            if again['value'] != row['value'] or again['meta'] != row['meta']:
                out.append(('value-differs', f'{d}: second run returned {again["value"][:100]} / {again["meta"]}, first {row["value"][:100]} / {row["meta"]}', 1))
            if again['listed_meta'] != row['meta']:
                out.append(('meta-differs', f'{d}: cached_tasks lists result_meta {again["listed_meta"]}, recorded {row["meta"]}', 1))
            if not bust['executed']:
                out.append(('bust-not-executed', f'{d}: bust_cache run did not execute', 1))
            if after['executed']:
                out.append(('re-executed', f'{d}: executed again after the bust_cache run', 1))
            if after['value'] != bust['value'] or after['meta'] != bust['meta']:
                out.append(('stale-after-bust', f'{d}: after bust_cache the cache hit returns {after["value"][:80]} / {after["meta"]}, the re-execution gave {bust["value"][:80]} / {bust["meta"]}', 1))
            if after['listed_meta'] != bust['meta']:
                out.append(('stale-after-bust', f'{d}: cached_tasks lists result_meta {after["listed_meta"]} after bust_cache, the re-execution recorded {bust["meta"]}', 1))
        return out, n
    finally:
        shutil.rmtree(tmp, ignore_errors=True)


MAIN_SCRIPT = '''
import json, os, sys
import labtech


@labtech.task
class MainTask:
    x: int
    tag: str = 't'

    def run(self):
        with open(os.environ['C06_MARK'], 'a') as f:
            f.write(f'{self.x}\\n')
        return ('M', self.x, self.tag)


@labtech.task
class MainWrap:
    inner: MainTask

    def run(self):
        with open(os.environ['C06_MARK'], 'a') as f:
            f.write(f'w{self.inner.x}\\n')
        return ('W', self.inner.result)


if __name__ == '__main__':
    import logging
    labtech.logger.setLevel(logging.CRITICAL + 10)
    storage, backend = sys.argv[1], sys.argv[2]
    tasks = [MainTask(x=1), MainTask(x=2, tag='u'), MainWrap(inner=MainTask(x=3))]
    lab = labtech.Lab(storage=storage, runner_backend=backend, max_workers=2, notebook=False)
    before = [lab.is_cached(t) for t in tasks]
    res = lab.run_tasks(tasks, disable_progress=True, disable_top=True)
    after = [lab.is_cached(t) for t in tasks]
    listed = sorted(t.cache_key for t in lab.cached_tasks([MainTask, MainWrap]))
    relisted = lab.run_tasks(lab.cached_tasks([MainTask]), disable_progress=True, disable_top=True)
    print(json.dumps({'before': before, 'after': after, 'values': [repr(res.get(t)) for t in tasks], 'keys': [t.cache_key for t in tasks],
                      'listed': listed, 'all_keys': sorted([t.cache_key for t in tasks] + [MainTask(x=3).cache_key]),
                      'relisted': sorted(repr(v) for v in relisted.values())}))
'''


def main_script_case(args):
    """Task types defined in the user's main script (module __main__; __mp_main__ inside spawned
    workers): first run with backend b1, second run in a fresh interpreter with backend b2."""
    b1, b2 = args
    tmp = tempfile.mkdtemp(prefix='c06m_')
    out = []
    try:
        script = os.path.join(tmp, 'user_script.py')
        open(script, 'w').write(MAIN_SCRIPT.replace('\\\\n', '\\n'))
        mark = os.path.join(tmp, 'mark')
        runs = []
        for b, s in ((b1, 1), (b2, 2)):
            open(mark, 'w').close()
            rc, so, se = run_isolated([sys.executable, script, os.path.join(tmp, 'st'), b], env=py_env(s, C06_MARK=mark), timeout=180, cwd=tmp)
            if rc != 0:
                return [(f'run-failed:{b}', f'main-script run with backend {b} exited {rc}: {se[-500:]}', 1)], 0
            runs.append((json.loads(so.strip().splitlines()[-1]), open(mark).read().split()))
        (r1, m1), (r2, m2) = runs
        d = f'task types defined in the main script, first={b1} second={b2}'
        if r1['keys'] != r2['keys']:
            out.append(('key-differs-across-processes', f'{d}: {r1["keys"]} vs {r2["keys"]}', 1))
        if not all(r1['after']):
            out.append(('not-cached-after-run', f'{d}: is_cached after the first run: {r1["after"]}', 1))
        if not all(r2['before']):
            out.append(('not-cached-in-new-process', f'{d}: is_cached in the second process: {r2["before"]}', 1))
        if m2:
            out.append(('re-executed', f'{d}: run() executed again in the second run: {m2}', 1))
        if r1['values'] != r2['values']:
            out.append(('value-differs', f'{d}: {r1["values"]} vs {r2["values"]}', 1))
        for i, r in enumerate((r1, r2)):
            if r['listed'] != r['all_keys']:
                out.append(('main-script-tasks-not-listed', f'{d}: cached_tasks after run {i + 1} lists keys {r["listed"]}, cached are {r["all_keys"]}', 1))
            if r['relisted'] != sorted(["('M', 1, 't')", "('M', 2, 'u')", "('M', 3, 't')"]):
                out.append(('main-script-listed-tasks-do-not-load', f'{d}: running the tasks cached_tasks returns after run {i + 1} gives {r["relisted"]}', 1))
        return out, 3
    finally:
        shutil.rmtree(tmp, ignore_errors=True)


def _all_tasks(t):
    from ..paramtree import find_tasks
    out = [t]
    for f in t.__dataclass_fields__:
        for d in find_tasks(getattr(t, f)):
            out.extend(_all_tasks(d))
    return out


def _work(item):
    kind, payload = item
    if kind == 'cross':
        return ('cross',) + cross_case(payload)
    if kind == 'reuse':
        return ('cross',) + reuse_case(payload)
    if kind == 'main':
        return ('cross',) + main_script_case(payload)
    if kind == 'group':
        return ('inproc',) + group_case(payload)
    if kind == 'two':
        return ('inproc',) + two_storage_case(payload)
    return ('inproc',) + inproc_case(payload)


def run(tier: str, seed: int) -> Result:
    silence_labtech()
    backends = ('serial', 'fork', 'spawn')
    if tier == 'quick':
        ts = trees(1, FULL, width=1, task_types=('Leaf',), inner_leaves=FULL) + trees(2, TINY[:3], width=2, task_types=('Leaf', 'BLeaf'), inner_leaves=TINY[:3])[::5]
        outer = ('Foo', 'JFoo', 'P2', 'BFoo')      # BFoo: the same qualified name as Foo in another module
        cross = [(b1, b2, 0, 1 + (i % 3), 4 + (i % 5)) for i, (b1, b2) in enumerate(itertools.product(backends, repeat=2))]
        fs_every = 40
    else:
        ts = trees(1, FULL, width=2, task_types=('Leaf', 'BLeaf'), inner_leaves=FULL) + trees(2, TINY, width=2, task_types=('Leaf', 'BLeaf'), inner_leaves=TINY)
        outer = ('Foo', 'JFoo', 'P2', 'BFoo', 'PFoo', 'NoCacheT')
        cross = [(b1, b2, w, s1, s2) for (b1, b2) in itertools.product(backends, repeat=2) for w in (0, 1, 2)
                 for (s1, s2) in ((1, 2), (2, 3), (3, 1))]
        fs_every = 25
    items = []
    i = 0
    for t in ts:
        for tn in outer:
            items.append((tn, t, i % len(CLOCKS)))
            i += 1
    for kind, n in (('scalar', 1), ('none', 0), ('nested', 2), ('large', 64), ('large', 1500), ('enum', 0)):
        for c in range(len(CLOCKS)):
            items.append(('Shape', (kind, n), c))
    if tier == 'quick':
        extra = [('NoCacheT', ('s', 1), 0), ('PFoo', ('s', 'x'), 1), ('BFoo', ('t', 'Leaf', ('s', 1)), 2)]
        items += extra
    work = [('inproc', ('mem', items[j:j + 400])) for j in range(0, len(items), 400)]
    fs_items = items[::fs_every]
    work += [('inproc', ('local', fs_items[j:j + 60])) for j in range(0, len(fs_items), 60)]
    work += [('inproc', ('fsspec', fs_items[j:j + 60])) for j in range(0, len(fs_items), 60)]
    grp = [it for it in items if it[0] != 'Shape']
    work += [('group', ('mem', grp[j:j + 60], (j // 60) % len(CLOCKS))) for j in range(0, len(grp), 60)]
    work += [('group', ('local', grp[j:j + 60], 1)) for j in range(0, len(grp), 60 * fs_every)]
    two = [it for it in grp[::7] if it[0] != 'NoCacheT']      # a cache=None type is re-executed by design
    work += [('two', two[j:j + 50]) for j in range(0, len(two), 50)]
    reuse = [(b, 0, 3) for b in backends] if tier == 'quick' else [(b, w, 2 + w) for b in backends for w in (0, 1, 2)]
    mains = [('spawn', 'serial'), ('fork', 'spawn'), ('serial', 'spawn')] if tier == 'quick' else list(itertools.product(backends, repeat=2))
    work = [('cross', c) for c in cross] + [('reuse', r) for r in reuse] + [('main', m) for m in mains] + work
    viols = []
    n_in = n_cross = 0
    for kind, res, n in pmap(_work, work):
        if kind == 'cross':
            n_cross += n
        else:
            n_in += n
        for key, msg, size in res:
            viols.append(Violation('C06', key, msg, {'tier': tier, 'clause': key, 'msg': msg}, size=size))
    cov = {
        'evaluations': n_in + n_cross,
        'distinct_nontrivial': len(items) + len(cross),
        'rule': ('in-process: every (outer type, parameter tree, clock) item run -> is_cached -> run with fresh equal task objects and a fresh Lab; '
                 'result shapes scalar/None/nested/enum/64 KiB/1.5 MiB; clock alphabet of 5 (start, duration) pairs through a fake datetime; in-memory + LocalStorage + fsspec-local. '
                 f'cross-process: {len(cross)} (first backend, second backend, task set, seed1, seed2) histories over serial/fork/spawn in fresh interpreters; '
                 'plus: groups of 60 tasks sharing one storage (a load must return the entry of that very task), the same task in two storages with different metadata, and one Lab object reused '
                 'for run -> run -> run(bust_cache) -> run with is_cached/cached_tasks in between on real serial/fork/spawn; distinct_nontrivial = distinct items + histories'),
        'samples': [repr(items[0]), repr(items[len(items) // 2]), repr(cross[0]), repr(cross[-1])],
        'in_process_histories': n_in,
        'cross_process_task_checks': n_cross,
        'exhaustive': True,
    }
    return Result('C06', 'exploration', cov, assumptions=[
        'values embed the canonical form of the task that produced them, so a foreign entry is visible',
        'cross-process values compared through repr()',
    ], violations=viols)


def replay(payload) -> int:
    print(json.dumps(payload, indent=1))
    r = run(payload.get('tier', 'quick'), 0)
    keys = sorted({v.key for v in r.violations})
    print('violation keys now:', keys)
    return 1 if payload.get('clause') in keys else 0


if __name__ == '__main__':
    if len(sys.argv) >= 5 and sys.argv[1] == '--dump':
        dump_run(sys.argv[2], sys.argv[3], int(sys.argv[4]))
    elif len(sys.argv) >= 5 and sys.argv[1] == '--reuse':
        reuse_dump(sys.argv[2], sys.argv[3], int(sys.argv[4]))
