"""C18 - local storage never reads, writes or deletes outside its directory.

Small-scope enumeration of key / filename strings from an adversarial path
grammar x operations x pre-existing layouts with symlinks.  Oracle: snapshot
of a sandbox (storage dir + outside canaries) before/after each operation,
plus an audit hook recording every path opened / created / removed / listed.
"""
from __future__ import annotations

import itertools
import json
import os
import shutil
import sys
import tempfile
from pathlib import Path

from ..common import HarnessError, Result, Violation, pmap, silence_labtech

MODES = ('r', 'w', 'a', 'x', 'rb', 'wb', 'r+', 'w+')
BENIGN_FILES = ('f', 'g', 'metadata.json')
BENIGN_KEYS = ('k', 'new', 'link_in')
LAYOUTS = ('empty', 'keys', 'symlinks', 'via-symlink')

_AUDIT_ON = False
_AUDIT_LOG: list = []
_HOOKED = False


def _hook(event, args):
    if not _AUDIT_ON:
        return
    if event in ('open', 'os.mkdir', 'os.rmdir', 'os.remove', 'os.rename', 'os.listdir', 'os.scandir',
                 'shutil.rmtree', 'os.symlink', 'os.link', 'os.truncate', 'os.chmod', 'shutil.copyfile', 'shutil.move'):
        _AUDIT_LOG.append((event, args))


def install_hook():
    global _HOOKED
    if not _HOOKED:
        sys.addaudithook(_hook)
        _HOOKED = True


def segments(outside_abs: str):
    return ['', '.', '..', 'k', 'a', 'new', ' ', '~', 'link_out', 'link_in', 'dangling', 'dangling_in',
            'file_link', outside_abs, 'nul\0x', 'f', '.gitignore', 'K', 'link_prefix', 'link_prefix_dir',
            # compatibility characters that Unicode normalisation (NFKC) turns into '..' / '.'
            '\uff0e\uff0e', '\u2025',
            # symlinks that lead back to the storage directory itself
            'self_link', 'self_link_abs']


def extra_strings():
    """Whole strings outside the segment product: separators and dots spelled with compatibility characters."""
    FS, FD = '\uff0f', '\uff0e'
    return [f'k{FS}{FD}{FD}{FS}{FD}{FD}{FS}outside', f'{FD}{FD}{FS}outside', f'link_out{FS}secret', f'k{FS}f', f'{FD}', f'k\u2215{FD}{FD}',
            f'{FD}{FD}{FS}{FD}{FD}{FS}canary_top', 'k\u2024\u2024', '\u2024\u2024']


def strings(nseg: int, outside_abs: str):
    segs = segments(outside_abs)
    out = []
    seen = set()
    for n in range(1, nseg + 1):
        for combo in itertools.product(segs, repeat=n):
            for seps in itertools.product('/\\', repeat=n - 1):
                s = combo[0]
                for sep, c in zip(seps, combo[1:]):
                    s += sep + c
                if s not in seen:
                    seen.add(s)
                    out.append(s)
    for s in extra_strings():
        if s not in seen:
            seen.add(s)
            out.append(s)
    return out


def build_sandbox(root: Path, layout: str):
    """root/storage (or root/real_storage + root/storage symlink), root/outside/..."""
    outside = root / 'outside'
    outside.mkdir(parents=True)
    (outside / 'secret').write_text('SECRET')
    os.chmod(outside / 'secret', 0o640)
    (outside / 'sub').mkdir()
    os.chmod(outside / 'sub', 0o750)
    (outside / 'sub' / 'canary2').write_text('C2')
    (root / 'canary_top').write_text('TOP')
    # sibling directories whose path has the storage path as a string prefix
    for sib in ('storage_backup', 'real_storage2'):
        (root / sib / 'K2').mkdir(parents=True)
        (root / sib / 'K2' / 'f').write_text('SIB')
    if layout == 'via-symlink':
        real = root / 'real_storage'
        real.mkdir()
        os.symlink('real_storage', root / 'storage')
        st = real
    else:
        st = root / 'storage'
        st.mkdir()
    if layout in ('bare', 'bare-dangling-gitignore'):
        return st                  # nothing at all in the storage directory (see _work for its .gitignore)
    (st / '.gitignore').write_text('*\n')
    if layout in ('keys', 'symlinks', 'via-symlink'):
        (st / 'k').mkdir()
        (st / 'k' / 'f').write_text('KF')
        (st / 'k' / 'sub').mkdir()
        (st / 'k' / 'sub' / 'deep').write_text('DEEP')
        (st / 'a').mkdir()
        (st / 'a' / 'f').write_text('AF')
    if layout in ('symlinks', 'via-symlink'):
        os.symlink('../outside', st / 'link_out')
        os.symlink('k', st / 'link_in')
        os.symlink('../nonexistent', st / 'dangling')
        os.symlink('newkey', st / 'dangling_in')
        os.symlink('../../outside/secret', st / 'k' / 'file_link')
        os.symlink('../a/f', st / 'k' / 'sibling_link')
        os.symlink('../../outside/sub', st / 'k' / 'dir_link')      # a directory symlink inside a key directory
        os.symlink('../outside/secret', st / 'file_link')
        sib = 'real_storage2' if layout == 'via-symlink' else 'storage_backup'
        os.symlink('.', st / 'self_link')
        os.symlink(os.path.realpath(st), st / 'self_link_abs')
        os.symlink(f'../{sib}/K2', st / 'link_prefix')
        os.symlink(f'../{sib}', st / 'link_prefix_dir')
    return st


def snapshot(root: Path) -> dict:
    snap = {}
    for dirpath, dirnames, filenames in os.walk(root, followlinks=False):
        for name in dirnames + filenames:
            p = os.path.join(dirpath, name)
            mode = os.lstat(p).st_mode & 0o7777       # permission changes are modifications too
            if os.path.islink(p):
                snap[p] = ('l', os.readlink(p))
            elif os.path.isdir(p):
                snap[p] = ('d', mode)
            else:
                try:
                    with open(p, 'rb') as fh:
                        snap[p] = ('f', fh.read(), mode)
                except OSError as e:
                    snap[p] = ('f?', str(e), mode)
    return snap


def run_case(storage, st_real: str, root: str, op: tuple):
    """Execute one operation under the audit hook; returns (raised, audit_log)."""
    global _AUDIT_ON
    _AUDIT_LOG.clear()
    raised = None
    _AUDIT_ON = True
    try:
        try:
            if op[0] == 'exists':
                storage.exists(op[1])
            elif op[0] == 'delete':
                storage.delete(op[1])
            else:
                _, key, fn, mode = op
                fh = storage.file_handle(key, fn, mode=mode)
                try:
                    if 'r' in mode and '+' not in mode:
                        fh.read()
                    else:
                        fh.write(b'x' if 'b' in mode else 'x')
                finally:
                    fh.close()
        except BaseException as e:  # noqa
            raised = e
    finally:
        _AUDIT_ON = False
    return raised, list(_AUDIT_LOG)


def judge(op, raised, before, after, audit, st_real: str, root: str):
    """Returns list of (key, message)."""
    out = []
    changed = [p for p in set(before) | set(after) if before.get(p) != after.get(p)]
    st_prefix = st_real + os.sep
    outside_changes = [p for p in changed if not p.startswith(st_prefix)]
    if outside_changes:
        out.append(('modified-outside', f'paths outside the storage directory changed: {sorted(outside_changes)[:3]}'))
    children = set()
    for p in changed:
        if not p.startswith(st_prefix):
            continue
        rel = p[len(st_prefix):].split(os.sep)
        children.add(rel[0])
        removed = p in before and p not in after
        if len(rel) > 2 and not (op[0] == 'delete' and removed):
            out.append(('touched-nested', f'changed {p}, deeper than a file directly inside a key directory'))
        if len(rel) == 1 and before.get(p, after.get(p))[0] in ('f', 'l') and p in before:
            out.append(('touched-storage-level-file', f'changed {p}, which is not a key directory'))
        if len(rel) == 1 and p not in before and after[p][0] in ('f', 'f?') and os.path.basename(p) != op[1]:
            # (a file created under the very name the key names is the key's business)
            out.append(('created-storage-level-file', f'created {p}: a file directly in the storage directory, outside every key directory'))
    if len(children) > 1:
        out.append(('several-keys-touched', f'one operation changed several children of the storage dir: {sorted(children)}'))
    if op[0] == 'exists' and changed:
        out.append(('exists-modified', f'exists() changed the filesystem: {sorted(changed)[:3]}'))
    # opens / listings outside (reads)
    for event, args in audit:
        path = args[0] if args else None
        if isinstance(path, bytes):
            path = os.fsdecode(path)
        if not isinstance(path, str) or not os.path.isabs(path) or '\0' in path:
            continue
        real = os.path.realpath(path)
        if real == st_real or real.startswith(st_prefix):
            continue
        if real.startswith(root + os.sep) or real == root:
            out.append(('opened-outside', f'{event} on {path} (-> {real}), outside the storage directory'))
    return out


def _work(item):
    silence_labtech()
    from labtech.storage import LocalStorage
    install_hook()
    layout, ops, outside_token = item
    base = '/dev/shm' if os.path.isdir('/dev/shm') and os.access('/dev/shm', os.W_OK) else None
    top = tempfile.mkdtemp(prefix='c18_', dir=base)
    res = []
    n = 0
    n_accepted = 0
    try:
        root = None
        storage = None
        dirty = True
        counter = 0
        for op in ops:
            if dirty:
                if root is not None:
                    shutil.rmtree(root, ignore_errors=True)
                counter += 1
                root = os.path.join(top, f's{counter}')
                st = build_sandbox(Path(root), layout)
                st_real = os.path.realpath(st)
                if layout.startswith('bare'):
                    # built the default way (labtech writes its .gitignore), then emptied by hand
                    storage = LocalStorage(os.path.join(root, 'storage'))
                    gi = os.path.join(st_real, '.gitignore')
                    if os.path.lexists(gi):
                        os.unlink(gi)
                    if layout == 'bare-dangling-gitignore':
                        os.symlink('../outside/created_through_gitignore', gi)
                else:
                    storage = LocalStorage(os.path.join(root, 'storage'), with_gitignore=False)
                before = snapshot(Path(root))
                dirty = False
            outside_abs = os.path.join(root, 'outside', 'secret')
            real_op = tuple(x.replace(outside_token, outside_abs) if isinstance(x, str) else x for x in op)
            raised, audit = run_case(storage, st_real, root, real_op)
            after = snapshot(Path(root))
            n += 1
            if raised is None:
                n_accepted += 1
            for key, msg in judge(real_op, raised, before, after, audit, st_real, root):
                res.append((f'{key}:{op[0]}', f'[{layout}] {op!r} ({"raised " + type(raised).__name__ if raised else "returned"}): {msg}', len(repr(op))))
            if after != before:
                dirty = True
        return n, n_accepted, res
    finally:
        shutil.rmtree(top, ignore_errors=True)


def audit_paths(audit, st_real: str) -> set:
    """Every absolute path inside the storage directory that an operation named in an audited call."""
    out = set()
    for event, args in audit:
        for a in args:
            if isinstance(a, bytes):
                a = os.fsdecode(a)
            elif hasattr(a, '__fspath__'):
                a = os.fspath(a)
            if isinstance(a, str) and os.path.isabs(a) and '\0' not in a:
                a = os.path.normpath(a)
                if a.startswith(st_real + os.sep):
                    out.add(a)
    return out


def _work_vanished(batch):
    """A storage object that outlives its directory: the directory holding the storage directory is
    removed (or the storage directory was reached through a link whose target has gone) after the
    LocalStorage was created.  Whatever the operation then does, nothing outside the storage
    directory - such as its vanished ancestors - may be created."""
    silence_labtech()
    from labtech.storage import LocalStorage
    install_hook()
    base = '/dev/shm' if os.path.isdir('/dev/shm') and os.access('/dev/shm', os.W_OK) else None
    top = tempfile.mkdtemp(prefix='c18v_', dir=base)
    res = []
    n = 0
    try:
        for i, (variant, op) in enumerate(batch):
            root = os.path.join(top, f'v{i}')
            holder = os.path.join(root, 'holder')
            os.makedirs(os.path.join(holder, 'deep', 'storage'))
            Path(os.path.join(root, 'canary_top')).write_text('TOP')
            if variant == 'via-link':
                os.symlink(os.path.join('holder', 'deep', 'storage'), os.path.join(root, 'storage'))
                given = os.path.join(root, 'storage')
            else:
                given = os.path.join(holder, 'deep', 'storage')
            st_real = os.path.realpath(given)
            storage = LocalStorage(given, with_gitignore=False)
            shutil.rmtree(holder)
            before = snapshot(Path(root))
            raised, audit = run_case(storage, st_real, root, op)
            after = snapshot(Path(root))
            n += 1
            for key, msg in judge(op, raised, before, after, audit, st_real, root):
                res.append((f'{key}:{op[0]}:vanished-storage', f'[storage directory removed together with its parent, {variant}] {op!r} '
                            f'({"raised " + type(raised).__name__ if raised else "returned"}): {msg}', 60))
            shutil.rmtree(root, ignore_errors=True)
        return n, res
    finally:
        shutil.rmtree(top, ignore_errors=True)


PLANTS = ('symlink->outside-dir', 'symlink->outside-file', 'dangling-symlink->outside')


def reactive_ops():
    ops = [('exists', k) for k in ('k', 'new')] + [('delete', k) for k in ('k', 'new')]
    for k in ('k', 'new'):
        for fn in ('f', 'metadata.json'):
            for m in MODES + ('wt', 'at'):
                ops.append(('file_handle', k, fn, m))
    return ops


def _work_reactive(batch):
    """For every path an operation probes that does not exist yet (a temporary file next to the
    target, a move-aside name, a lock file ...), the operation is repeated on fresh sandboxes in
    which that very path already exists as a symlink pointing outside the storage directory."""
    silence_labtech()
    from labtech.storage import LocalStorage
    install_hook()
    base = '/dev/shm' if os.path.isdir('/dev/shm') and os.access('/dev/shm', os.W_OK) else None
    top = tempfile.mkdtemp(prefix='c18r_', dir=base)
    res = []
    n = planted = 0
    try:
        for i, op in enumerate(batch):
            root = os.path.join(top, f'p{i}')
            st = build_sandbox(Path(root), 'keys')
            st_real = os.path.realpath(st)
            storage = LocalStorage(os.path.join(root, 'storage'), with_gitignore=False)
            before = snapshot(Path(root))
            raised, audit = run_case(storage, st_real, root, op)
            n += 1
            expected = {os.path.join(st_real, op[1])} | ({os.path.join(st_real, op[1], op[2])} if op[0] == 'file_handle' else set())
            cands = sorted(p for p in audit_paths(audit, st_real) if p not in before and p not in expected)
            shutil.rmtree(root, ignore_errors=True)
            for j, cand in enumerate(cands):
                rel = os.path.relpath(cand, st_real)
                for plant in PLANTS:
                    root2 = os.path.join(top, f'p{i}_{j}_{PLANTS.index(plant)}')
                    st2 = build_sandbox(Path(root2), 'keys')
                    st2_real = os.path.realpath(st2)
                    target = {'symlink->outside-dir': os.path.join(root2, 'outside', 'sub'),
                              'symlink->outside-file': os.path.join(root2, 'outside', 'secret'),
                              'dangling-symlink->outside': os.path.join(root2, 'outside', 'created_through_link')}[plant]
                    lp = os.path.join(st2_real, rel)
                    os.makedirs(os.path.dirname(lp), exist_ok=True)
                    os.symlink(target, lp)
                    storage2 = LocalStorage(os.path.join(root2, 'storage'), with_gitignore=False)
                    before2 = snapshot(Path(root2))
                    raised2, audit2 = run_case(storage2, st2_real, root2, op)
                    after2 = snapshot(Path(root2))
                    planted += 1
                    for k, msg in judge(op, raised2, before2, after2, audit2, st2_real, root2):
                        if k in ('several-keys-touched', 'touched-storage-level-file') and os.sep not in rel:
                            continue       # the planted name itself is a child of the storage directory
                        res.append((f'{k}:{op[0]}:planted-symlink',
                                    f'{op!r} with {rel!r} (a path the operation itself probes) pre-existing as {plant} '
                                    f'({"raised " + type(raised2).__name__ if raised2 else "returned"}): {msg}', 80 + i))
                    shutil.rmtree(root2, ignore_errors=True)
        return n, planted, res
    finally:
        shutil.rmtree(top, ignore_errors=True)


OUT_TOKEN = '<<OUTSIDE_ABS>>'

MUTATIONS = ('key->symlink-outside-dir', 'key->symlink-sibling-key', 'file->symlink-outside-file', 'key->symlink-prefix-sibling',
             'dir-symlink-inside-key', 'chdir')


def mutate(st: Path, root: Path, key: str, how: str):
    """Environment change between two operations of a history."""
    kp = st / key
    if how == 'chdir':
        # the process changes its working directory (a task may do that); a same-named directory exists there
        (root / 'outside' / 'storage' / key).mkdir(parents=True, exist_ok=True)
        (root / 'outside' / 'storage' / key / 'f').write_text('ELSEWHERE')
        os.chdir(root / 'outside')
        return
    if how == 'dir-symlink-inside-key':
        kp.mkdir(exist_ok=True)
        lp = kp / 'linked_dir'
        if not (lp.exists() or lp.is_symlink()):
            os.symlink('../../outside/sub', lp)
        return
    if how.startswith('key->'):
        if kp.is_symlink() or kp.is_file():
            kp.unlink()
        elif kp.is_dir():
            shutil.rmtree(kp)
        target = {'key->symlink-outside-dir': '../outside', 'key->symlink-sibling-key': 'a',
                  'key->symlink-prefix-sibling': '../storage_backup/K2'}[how]
        os.symlink(target, kp)
    else:
        kp.mkdir(exist_ok=True)
        fp = kp / 'f'
        if fp.exists() or fp.is_symlink():
            fp.unlink()
        os.symlink('../../outside/secret', fp)


def history_ops():
    firsts = [('exists',), ('delete',), ('file_handle', 'f', 'w'), ('file_handle', 'f', 'r')]
    seconds = [('exists',), ('delete',)] + [('file_handle', 'f', m) for m in MODES]
    out = []
    for key in ('k', 'new'):
        for f in firsts:
            for how in MUTATIONS:
                for s2 in seconds:
                    out.append((key, f, how, s2))
    return out


def _work_hist(batch):
    silence_labtech()
    from labtech.storage import LocalStorage
    install_hook()
    base = '/dev/shm' if os.path.isdir('/dev/shm') and os.access('/dev/shm', os.W_OK) else None
    top = tempfile.mkdtemp(prefix='c18h_', dir=base)
    res = []
    try:
        for i, (key, first, how, second) in enumerate(batch):
            root = os.path.join(top, f'h{i}')
            st = build_sandbox(Path(root), 'keys')
            st_real = os.path.realpath(st)
            cwd0 = os.getcwd()
            os.chdir(root)
            # built from a *relative* path while the working directory is the sandbox root
            storage = LocalStorage('storage', with_gitignore=False)
            op1 = (first[0], key) + tuple(first[1:])
            run_case(storage, st_real, root, op1)
            mutate(Path(st_real), Path(root), key, how)
            before = snapshot(Path(root))
            op2 = (second[0], key) + tuple(second[1:])
            raised, audit = run_case(storage, st_real, root, op2)
            os.chdir(cwd0)
            after = snapshot(Path(root))
            for k, msg in judge(op2, raised, before, after, audit, st_real, root):
                if how == 'key->symlink-sibling-key' and k in ('several-keys-touched',):
                    continue
                res.append((f'{k}:{op2[0]}:after-environment-change',
                            f'history {op1!r}; then {how}; then {op2!r} ({"raised " + type(raised).__name__ if raised else "returned"}): {msg}', 50 + i))
            shutil.rmtree(root, ignore_errors=True)
        return len(batch), res
    finally:
        shutil.rmtree(top, ignore_errors=True)


def all_ops(nseg: int):
    strs = strings(nseg, OUT_TOKEN)
    ops = []
    for k in strs:
        ops.append(('exists', k))
        ops.append(('delete', k))
        for fn in BENIGN_FILES:
            for m in MODES:
                ops.append(('file_handle', k, fn, m))
    for fn in strs:
        for k in BENIGN_KEYS:
            for m in MODES:
                ops.append(('file_handle', k, fn, m))
    return strs, ops


def run(tier: str, seed: int) -> Result:
    silence_labtech()
    nseg = 2 if tier == 'quick' else 3
    strs, ops = all_ops(nseg)
    if tier != 'quick':
        # 3-segment strings: keep the full key x {exists, delete, 1 file x 2 modes} and filename x 1 key x 2 modes product
        strs3 = [s for s in strs]
        ops = []
        two = set(strings(2, OUT_TOKEN))
        for k in strs3:
            ops.append(('exists', k))
            ops.append(('delete', k))
            fm = MODES if k in two else ('w', 'r')
            for fn in (BENIGN_FILES if k in two else ('f',)):
                for m in fm:
                    ops.append(('file_handle', k, fn, m))
        for fn in strs3:
            fm = MODES if fn in two else ('w', 'r')
            for k in (BENIGN_KEYS if fn in two else ('k',)):
                for m in fm:
                    ops.append(('file_handle', k, fn, m))
    items = []
    chunk = 1500
    for layout in LAYOUTS:
        for i in range(0, len(ops), chunk):
            items.append((layout, ops[i:i + chunk], OUT_TOKEN))
    # a storage directory with nothing in it (not even its .gitignore), or whose .gitignore is a dangling link to outside
    small_ops = [op for op in ops if all(('/' not in x and '\\' not in x) for x in op[1:3] if isinstance(x, str))]
    for layout in ('bare', 'bare-dangling-gitignore'):
        for i in range(0, len(small_ops), chunk):
            items.append((layout, small_ops[i:i + chunk], OUT_TOKEN))
    total = accepted = 0
    viols = []
    for n, na, res in pmap(_work, items):
        total += n
        accepted += na
        for key, msg, size in res:
            viols.append(Violation('C18', key, msg, {'tier': tier, 'clause': key, 'msg': msg}, size=size))
    hist = history_ops()
    n_hist = 0
    for n, res in pmap(_work_hist, [hist[i:i + 40] for i in range(0, len(hist), 40)]):
        n_hist += n
        for key, msg, size in res:
            viols.append(Violation('C18', key, msg, {'tier': tier, 'clause': key, 'msg': msg}, size=size))
    total += n_hist
    rops = reactive_ops()
    n_react = n_planted = 0
    for n, pl, res in pmap(_work_reactive, [rops[i:i + 6] for i in range(0, len(rops), 6)]):
        n_react += n
        n_planted += pl
        for key, msg, size in res:
            viols.append(Violation('C18', key, msg, {'tier': tier, 'clause': key, 'msg': msg}, size=size))
    total += n_react + n_planted
    vops = [(v, op) for v in ('direct', 'via-link') for op in rops]
    n_van = 0
    for n, res in pmap(_work_vanished, [vops[i:i + 12] for i in range(0, len(vops), 12)]):
        n_van += n
        for key, msg, size in res:
            viols.append(Violation('C18', key, msg, {'tier': tier, 'clause': key, 'msg': msg}, size=size))
    total += n_van
    cov = {
        'storage_directory_vanished_cases': n_van,
        'reactive_cases': {'operations': n_react, 'runs_with_a_probed_path_planted_as_symlink': n_planted},
        'two_step_histories_with_environment_change': n_hist,
        'evaluations': total,
        'distinct_nontrivial': len(ops) * len(LAYOUTS) + len(hist),
        'rule': (f'key/filename strings = all sequences of <= {nseg} segments from 20 adversarial segments (empty, dot, dotdot, existing/new keys, '
                 'space, tilde, symlinks pointing outside / to a sibling key / dangling, symlink inside a key dir to an outside file, absolute outside path, '
                 'NUL, .gitignore, case variant) joined by / or \\; ops exists, delete, file_handle in 8 modes (then read/write+close); 4 layouts; '
                 'keys x 3 benign filenames and 3 benign keys x filenames; each case on a fresh (or verified-unchanged) sandbox; plus two-step histories '
                 '(operation; a key or file is replaced by a symlink to outside / sibling / prefix-sibling; second operation on the same storage object); storage objects whose directory (with its parent) was removed after construction; permission bits are part of the snapshot; reactive layouts: every not-yet-existing path an operation names in an audited call is planted as a symlink to an outside directory / file / dangling outside target and the operation repeated; '
                 'distinct_nontrivial = distinct (layout, operation) cases'),
        'samples': [repr(ops[i]) for i in (0, len(ops) // 3, len(ops) // 2, len(ops) - 1)],
        'operations_that_did_not_raise': accepted,
        'strings': len(strs),
        'exhaustive': True,
    }
    return Result('C18', 'exploration', cov, assumptions=[
        'modifications judged by a full before/after snapshot of the sandbox; reads by audit events carrying absolute paths (dir_fd-relative events inside rmtree are covered by the snapshot only)',
    ], violations=viols)


def replay(payload) -> int:
    print(json.dumps(payload, indent=1))
    r = run(payload.get('tier', 'quick'), 0)
    keys = sorted({v.key for v in r.violations})
    print('violation keys now:', keys)
    return 1 if payload.get('clause') in keys else 0
