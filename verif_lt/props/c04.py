"""C04 - per-type and global concurrency limits are never exceeded (coordinator part)."""
from .. import families as F
from ..e2prop import replay, run_e2_property  # noqa: F401

ASSUME = [
    'per-type limit observed as the in-flight set of the schedule-controlling runner at every submit',
    'max_workers / real processes are covered by the virtual multiprocessing slice (E3) once built',
]


def run(tier: str, seed: int):
    if tier == 'quick':
        cfgs = (list(F.fam_limits(1, 4, batch=2, faults=False)) + list(F.fam_limits(1, 3, batch=3, faults=True, tnames=('TA', 'TB', 'TC', 'TD')))
                + list(F.fam_limits_special(3)) + list(F.fam_limits_warm(3)) + list(F.fam_inherit(3)))
        serial = list(F.fam_limits(1, 3, batch=1)) + list(F.fam_limits_special(2)) + list(F.fam_limits_warm(2)) + list(F.fam_inherit(2))
        rule = 'all DAG shapes n<=4 x per-node type in {unlimited, max_parallel 1, 2} (n<=3: also 3, with single faults/deaths, batch<=3), all nodes requested, every completion order; n<=3 over specially declared limited types (cache=None + limit, single-call decorator spelling, two types with identical decorator arguments) with empty polls; limited types against a warm cache with/without bust_cache'
        e3c = (list(F.fam_e3(F.fam_limits(1, 3, tnames=('TA', 'TB'), faults=True), workers=(1, 2, None)))
               + list(F.fam_e3(list(F.fam_limits_special(3, tnames=('TK', 'TC1', 'TC2'))) + list(F.fam_limits_warm(3)), workers=(3,), cpu_count=3, backends=('fork',), liveness=False))
               + list(F.fam_e3([c for c in F.fam_inherit(3) if len(c.requested) == c.spec.n and not c.precached and c.requested[0][0] == 0], workers=(3,), cpu_count=3, backends=('fork',), liveness=False))
               # limited tasks queued behind unlimited ones that occupy every worker
               + list(F.fam_e3([F.Config(spec=F.mk_spec(((),) * 4, types=ty), requested=tuple((i, False) for i in range(4)))
                                for ty in (('TA', 'TA', 'TB', 'TB'), ('TA', 'TA', 'TC', 'TC'), ('TA', 'TB', 'TA', 'TB'))], workers=(2,), backends=('fork',), liveness=False)))
    else:
        cfgs = (list(F.fam_limits(1, 4, batch=3, faults=True, tnames=('TA', 'TB', 'TC', 'TD')))
                + list(F.fam_limits(5, 5, batch=2, tnames=('TB', 'TC'))) + list(F.fam_limits_special(3, batch=3)) + list(F.fam_limits_warm(3, batch=3)) + list(F.fam_inherit(3, batch=3, faults=True)))
        serial = list(F.fam_limits(1, 4, batch=1)) + list(F.fam_limits_special(3)) + list(F.fam_limits_warm(3))
        rule = 'n<=4 x types {None,1,2,3} x faults, batch<=3; n=5 x {1,2}'
        e3c = list(F.fam_e3(F.fam_limits(1, 3, tnames=('TA', 'TB', 'TC'), faults=True), workers=(1, 2, 3, None), cpu_count=3)) + list(F.fam_e3(F.fam_limits(4, 4, tnames=('TA', 'TB')), workers=(2, 3), cpu_count=3, liveness=False)) + list(F.fam_e3(list(F.fam_limits_special(3)) + list(F.fam_limits_warm(3)), workers=(2, 3), cpu_count=3))
    # the Lab object has been through a call that a failure aborted while limited-type tasks were in flight
    cfgs = list(cfgs) + list(F.fam_history_abort(2))
    serial = list(serial) + list(F.fam_history_abort(2))
    e3c = list(e3c) + list(F.fam_e3([c for c in F.fam_history_abort(2) if c.spec.n <= 2], workers=(3,), cpu_count=3, backends=('fork',), liveness=False))
    return run_e2_property('C04', tier, seed, cfgs, serial_configs=serial, e3_configs=e3c, barrier_cases=__import__('verif_lt.e4b', fromlist=['cases']).cases(tier), real_cases=list(F.fam_real(F.real_bases('limits') + F.real_bases('plain'), workers=(1, 2))), rule=rule, assumptions=ASSUME)
