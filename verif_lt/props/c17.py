"""C17 - intermediate results live exactly as long as a dependent needs them."""
from .. import families as F
from ..e2prop import replay, run_e2_property  # noqa: F401

ASSUME = [
    'liveness reference: direct dependents that execute in this run (from the construction spec)',
    'set-iteration order inside labtech varied by enumerating all label permutations (int labels, seed-independent hashes)',
]


def run(tier: str, seed: int):
    if tier == 'quick':
        cfgs = (list(F.fam_shapes(1, 4, batch=2)) + list(F.fam_faults(1, 3, max_faults=2, perms=True, cofs=(True,)))
                + list(F.fam_faults(4, 4, max_faults=1, reqs='sinks', cofs=(True,))) + list(F.fam_variants(3)) + list(F.fam_inherit(3, faults=True)))
        cfgs = list(cfgs) + list(F.fam_mlflow(3))
        serial = list(F.fam_mlflow(3)) + list(F.fam_inherit(2, faults=True)) + list(F.fam_shapes(1, 3, batch=1)) + list(F.fam_faults(1, 3, max_faults=2, kinds=('raise',), perms=True, cofs=(True,))) + list(F.fam_variants(2))
        rule = 'n<=4 shapes x requested x pre-cached; n<=3 x all label permutations x fault sets <=2; n=4 single faults; every completion order (batch<=2); real SerialRunner results_map via spy'
        e3c = list(F.fam_e3(list(F.fam_faults(1, 3, cofs=(True,))) + list(F.fam_shapes(1, 3)) + list(F.fam_variants(2)), workers=(2,), liveness=False)) + list(F.fam_e3([c for c in F.fam_shapes(2, 2, pre=False) if len(c.requested) == c.spec.n], workers=(1, 2), liveness=False, prelude=True))
    else:
        cfgs = (list(F.fam_shapes(1, 4, batch=2)) + list(F.fam_shapes(5, 5, batch=2, pre=False)) + list(F.fam_faults(1, 3, max_faults=2, perms=True, cofs=(True,), reqs='sinks'))
                + list(F.fam_faults(4, 4, max_faults=1, perms=True, cofs=(True,), reqs='sinks')) + list(F.fam_faults(4, 4, max_faults=2, cofs=(True,), reqs='sinks'))
                + list(F.fam_faults(5, 5, max_faults=1, reqs='sinks', cofs=(True,))) + list(F.fam_variants(3, batch=3)))
        serial = list(F.fam_shapes(1, 4, batch=1)) + list(F.fam_faults(1, 3, max_faults=2, kinds=('raise',), perms=True, cofs=(True,), reqs='sinks')) + list(F.fam_faults(4, 4, max_faults=1, kinds=('raise',), perms=True, cofs=(True,), reqs='sinks')) + list(F.fam_variants(3))
        rule = 'n<=4 shapes x pre-cached subsets, n=5 cold; n<=3 x label permutations x fault sets <=2; n=4 x label permutations x single faults and fault pairs without permutations; n=5 single faults'
        e3c = list(F.fam_e3(list(F.fam_faults(1, 3, max_faults=1, cofs=(True,), perms=True)) + list(F.fam_faults(2, 3, max_faults=2, cofs=(True,))) + list(F.fam_shapes(1, 3)), workers=(1, 2), liveness=False)) + list(F.fam_e3(F.fam_faults(4, 4, cofs=(True,), reqs='sinks'), workers=(2,), liveness=False))
    if tier != 'quick':
        x_cf, x_se, x_e3 = F.thorough_extras('C17')
        cfgs, serial, e3c = list(cfgs) + x_cf, list(serial) + x_se, list(e3c) + x_e3
    # tasks whose result is None
    cfgs = list(cfgs) + list(F.fam_none(3))
    serial = list(serial) + list(F.fam_none(2))
    e3c = list(e3c) + list(F.fam_e3(F.fam_none(2), workers=(2,), liveness=False))
    return run_e2_property('C17', tier, seed, cfgs, serial_configs=serial, e3_configs=e3c, hash_slices=([('faults3', 1), ('faults3', 2), ('shapes3', 1)] if tier == 'quick' else [('faults3', 1), ('faults3', 2), ('faults3', 3), ('shapes3', 1), ('faults4', 1), ('faults4', 2)]), real_cases=list(F.fam_real(F.real_bases('plain') + F.real_bases('faults'), workers=(2,))), rule=rule, assumptions=ASSUME)
