"""C20 - the task diagram shows every reachable type and relationship."""
from __future__ import annotations

import hashlib
import json
import os
import re
import subprocess
import sys

from frozendict import frozendict

from labtech.diagram import build_task_diagram
from labtech.types import is_task

from .. import gtypes as G
from ..common import HarnessError, Result, Violation, pmap, silence_labtech


def values(small, allt):
    vals = [1]
    vals += list(allt)
    vals += [[t] for t in allt]
    vals += [[a, b] for a in small for b in small]
    vals += [{'k': t} for t in small]
    vals += [{'k': [t]} for t in small]
    vals += [[[t]] for t in small]
    vals += [{'j': a, 'k': b} for a in small for b in small if a is not b]
    # collections led by a scalar: (weight, task) pairs, a None placeholder first, a labelled tuple inside a dict
    vals += [[None, t] for t in small] + [[(0.5, t)] for t in small] + [{'k': ('label', t)} for t in small]
    vals += [[1, a, b] for a in small for b in small if a is not b]
    return vals


def level_tasks(vals_full, vals_small):
    out = [G.GA(x=1)]
    out += [G.GD(p=v) for v in vals_full]
    out += [G.GE(p=v, z=1) for v in vals_small]
    out += [G.GB(one=v, many=w) for v in vals_small for w in vals_small]
    out += [G.GC(a=v, b=w) for v in vals_small for w in vals_small]
    return out


def reps(tasks):
    """One representative per type, preferring ones that have dependencies."""
    out = {}
    for t in tasks:
        cur = out.get(type(t))
        if cur is None or (not ref_edges_of(cur) and ref_edges_of(t)):
            out[type(t)] = t
    return [out[k] for k in (G.GA, G.GB, G.GC, G.GD, G.GE) if k in out]


def hint_inputs():
    """Types whose annotations are equal as objects but spelled differently, in both orders and nested."""
    f, g = G.GF(a=1.5), G.GG(b=2.5)
    fa, ga = G.GF(dep=G.GA(x=1)), G.GG(dep=[G.GA(x=1), G.GA(x=2)])
    return [[f], [g], [f, g], [g, f], [fa, ga], [ga, fa], [G.GD(p=f)], [G.GD(p=[g, f])], [G.GB(one=g, many=[f, fa])]]


def special_inputs():
    """Falsy task objects (a sized task of length 0) wherever a task can sit, and task types whose
    string annotations cannot be resolved from module globals."""
    a = G.GA(x=1)
    e0, e1 = G.GH(n=0, dep=a), G.GH(n=2, dep=[a])
    out = [[e0], [e1], [G.GD(p=e0)], [G.GD(p=[e0])], [G.GD(p={'k': e0})], [G.GB(one=G.GH(n=0), many=[G.GH(n=0, dep=G.GD(p=a))])],
           [G.GD(p=G.GH(n=0, dep=G.GH(n=0, dep=a)))], [G.GC(a=e0, b=e1)], [G.GD(p=e0), G.GD(p=[e1])]]
    li = G.GLInner(x=1)
    out += [[G.GL()], [G.GL(dep=li)], [G.GD(p=G.GL(dep=li))], [G.GB(one=li, many=[G.GL(dep=li)])], [G.GL(dep=li), li]]
    return out


def inputs(tier: str):
    l0 = [G.GA(x=1)]
    v0 = values(l0, l0)
    l1 = level_tasks(v0, v0)
    s1 = reps(l1)
    v1_full = values(s1, l1)
    v1_small = values(s1, s1)
    l2 = level_tasks(v1_full, v1_small)
    ins = hint_inputs() + special_inputs() + [[t] for t in l1] + [[t] for t in l2]
    gb1 = [t for t in l1 if type(t) is G.GB]
    ins += [[a, b] for a in gb1 for b in gb1 if a is not b][:: (1 if tier != 'quick' else 3)]
    if tier != 'quick':
        s2 = reps(l2)
        v2_full = values(s2, l2[::7])
        v2_small = values(s2, s2)
        l3 = level_tasks(v2_full, v2_small)
        ins += [[t] for t in l3]
        ins += [[a, b] for a in l1 for b in s2]
    return ins


# ---- reference (independent traversal)

def find(v):
    if is_task(v):
        return [v]
    if isinstance(v, (list, tuple)):
        return [t for x in v for t in find(x)]
    if isinstance(v, (dict, frozendict)):
        return [t for x in v.values() for t in find(x)]
    return []


def ref_edges_of(task):
    out = set()
    for f in G.FIELDS[type(task)]:
        v = getattr(task, f)
        for sub in find(v):
            out.add((type(task).__name__, f, type(sub).__name__, not is_task(v)))
    return out


def reference(tasks):
    types, edges = set(), {}
    stack = list(tasks)
    seen = set()
    while stack:
        t = stack.pop()
        types.add(type(t).__name__)
        if id(t) in seen:
            continue
        seen.add(id(t))
        for (a, f, b, many) in ref_edges_of(t):
            edges[(a, f, b)] = edges.get((a, f, b), False) or many
        for f in G.FIELDS[type(t)]:
            stack.extend(find(getattr(t, f)))
    return types, edges


ARROW = re.compile(r'^(\w+) <-- ("many" )?(\w+): (\w+)$')
MEMBER = re.compile(r'^(\w+) : (.*)$')


def parse(text: str):
    lines = text.split('\n')
    if not lines or lines[0] != 'classDiagram':
        return None
    classes: dict = {}
    arrows = []
    order = []
    for ln in lines[1:]:
        s = ln.strip()
        if not s or s.startswith('direction '):
            continue
        m = ARROW.match(s)
        if m:
            arrows.append((m.group(1), m.group(4), m.group(3), bool(m.group(2))))
            continue
        if s.startswith('class '):
            name = s[6:].strip()
            order.append(name)
            classes.setdefault(name, {'count': 0, 'members': []})
            classes[name]['count'] += 1
            continue
        m = MEMBER.match(s)
        if m:
            classes.setdefault(m.group(1), {'count': 0, 'members': []})['members'].append(m.group(2))
            continue
        return None
    return classes, arrows


def check_one(tasks):
    out = []
    try:
        text = build_task_diagram(tasks)
        text2 = build_task_diagram(list(tasks))
    except BaseException as e:  # noqa
        return [(f'raised:{type(e).__name__}', f'build_task_diagram raised {type(e).__name__}: {e}')], None
    if text != text2:
        out.append(('nondeterministic', 'two builds of the same input differ'))
    # every layout direction shows the same classes and arrows
    for direction in ('TB', 'LR', 'RL', 'BT'):
        try:
            td = build_task_diagram(tasks, direction=direction)
        except BaseException as e:  # noqa
            out.append((f'raised:{type(e).__name__}', f'build_task_diagram(direction={direction!r}) raised {type(e).__name__}: {e}'))
            continue
        pd, pt = parse(td), parse(text)
        if pd is None or pt is None or pd[0] != pt[0] or sorted(pd[1]) != sorted(pt[1]):
            out.append(('direction-changes-content', f'direction={direction!r} shows other classes / arrows than the default direction'))
    parsed = parse(text)
    if parsed is None:
        return [('unparseable', 'output is not a class diagram of the expected form')], text
    classes, arrows = parsed
    types, edges = reference(tasks)
    for tname in types:
        c = classes.get(tname)
        if c is None or c['count'] == 0:
            out.append(('class-missing', f'reachable type {tname} has no class block'))
            continue
        if c['count'] > 1:
            out.append(('class-duplicated', f'type {tname} has {c["count"]} class blocks'))
        cls = getattr(G, tname)
        names = [m.rsplit(' ', 1)[-1] for m in c['members'] if not m.startswith('run()')]
        for f in G.FIELDS[cls]:
            if names.count(f) != 1:
                out.append(('param-missing', f'type {tname}: parameter {f} listed {names.count(f)} times'))
        extra = [n for n in names if n not in G.FIELDS[cls]]
        if extra:
            out.append(('param-extra', f'type {tname}: unknown members {extra}'))
        for m in c['members']:
            if m.startswith('run()'):
                continue
            ttext, _, fname = m.rpartition(' ')
            want_t = G.FIELD_TYPES[cls].get(fname)
            if want_t is not None and ttext != want_t:
                out.append(('param-type', f'type {tname}: parameter {fname} is shown as {ttext!r}, its annotation reads {want_t!r}'))
        runs = [m for m in c['members'] if m.startswith('run()')]
        want = 'run()' + (f' {G.RUN_RETURN[cls]}' if G.RUN_RETURN[cls] else '')
        if runs != [want]:
            out.append(('run-signature', f'type {tname}: run lines {runs}, want [{want!r}]'))
    for tname in classes:
        if tname not in types:
            out.append(('class-unreachable', f'class block for {tname}, which is not reachable'))
    got = {}
    for (a, f, b, many) in arrows:
        got.setdefault((a, f, b), []).append(many)
    for k, many in edges.items():
        if k not in got:
            out.append(('arrow-missing', f'no arrow for {k}'))
        else:
            if len(got[k]) > 1:
                out.append(('arrow-duplicated', f'{len(got[k])} arrows for {k}'))
            if got[k][0] != many:
                out.append(('many-wrong', f'arrow {k} marked many={got[k][0]}, reference many={many}'))
    for k in got:
        if k not in edges:
            out.append(('arrow-extra', f'arrow {k} does not occur in the tasks'))
    return out, text


def same_name_check():
    """Two distinct task types with one name: two class blocks, each with its own parameters."""
    out = []
    a = G.GA(x=1)
    for tasks in ([G.GV1(x=1), G.GV2(y=2, dep=a)], [G.GV2(y=2, dep=[a]), G.GV1(x=1)], [G.GD(p=[G.GV1(x=1), G.GV2(y=1, dep=a)])]):
        try:
            text = build_task_diagram(tasks)
        except BaseException as e:  # noqa
            out.append((f'raised:{type(e).__name__}', f'{tasks!r}: build_task_diagram raised {type(e).__name__}: {e}'))
            continue
        parsed = parse(text)
        if parsed is None:
            out.append(('unparseable', f'{tasks!r}: output is not a class diagram of the expected form'))
            continue
        classes, arrows = parsed
        c = classes.get('GV', {'count': 0, 'members': []})
        names = sorted(m.rsplit(' ', 1)[-1] for m in c['members'] if not m.startswith('run()'))
        if c['count'] != 2 or names != ['dep', 'x', 'y']:
            out.append(('class-missing', f'{tasks!r}: two distinct task types named GV are reachable; the diagram has {c["count"]} class blocks GV with parameters {names}'))
        n_arrow = sum(1 for (x, f, y, many) in arrows if (x, f, y) == ('GV', 'dep', 'GA'))
        if n_arrow != 1:
            out.append(('arrow-missing' if n_arrow == 0 else 'arrow-duplicated', f'{tasks!r}: {n_arrow} arrows GV <-- GA: dep'))
    return out


def _work(batch):
    silence_labtech()
    res = []
    hashes = []
    for idx, tasks in batch:
        v, text = check_one(tasks)
        hashes.append((idx, hashlib.sha1((text or '').encode()).hexdigest()[:16]))
        for key, msg in v:
            res.append((key, f'input #{idx} {tasks!r}: {msg}'[:600], idx))
    return res, hashes


def table(tier):
    ins = inputs(tier)
    return [hashlib.sha1(build_task_diagram(t).encode()).hexdigest()[:16] for t in ins]


def run(tier: str, seed: int) -> Result:
    silence_labtech()
    ins = inputs(tier)
    indexed = list(enumerate(ins))
    batches = [indexed[i:i + 500] for i in range(0, len(indexed), 500)]
    viols = []
    hashes = {}
    for res, hs in pmap(_work, batches):
        hashes.update(dict(hs))
        for key, msg, idx in res:
            viols.append(Violation('C20', key, msg, {'tier': tier, 'input_index': idx, 'clause': key}, size=idx))
    for key, msg in same_name_check():
        viols.append(Violation('C20', key, msg[:600], {'tier': tier, 'clause': key}, size=3))
    seeds = (1,) if tier == 'quick' else (1, 2)
    for s in seeds:
        env = dict(os.environ, PYTHONHASHSEED=str(s))
        p = subprocess.run([sys.executable, '-m', 'verif_lt.props.c20', '--dump', tier], env=env,
                           stdout=subprocess.PIPE, stderr=subprocess.PIPE, text=True, timeout=1800)
        if p.returncode != 0:
            # a build that raises is reported by the in-process pass; anything else is a harness problem
            if not viols:
                raise HarnessError(f'diagram table subprocess failed: {p.stderr[-1500:]}')
            continue
        other = json.loads(p.stdout)
        for idx, h in enumerate(other):
            if hashes.get(idx) != h:
                viols.append(Violation('C20', 'nondeterministic:fresh-interpreter',
                                       f'input #{idx} {ins[idx]!r}: text differs in a fresh interpreter with PYTHONHASHSEED={s}',
                                       {'tier': tier, 'input_index': idx, 'seed': s, 'clause': 'nondeterministic:fresh-interpreter'}, size=idx))
                break
    distinct = len(set(hashes.values()))
    cov = {
        'evaluations': len(ins) * (1 + len(seeds)),
        'distinct_nontrivial': distinct,
        'rule': ('task graphs over 4 task types with scalar / single-task / list / dict / nested-collection parameters, built level by level '
                 '(every value form over all tasks of the previous level for GD.p, over per-type representatives for GB/GC pairs), depth 2 quick / 3 thorough, '
                 'plus pairs of GB tasks (many-vs-single across instances); output parsed back and compared with an independent traversal; '
                 'distinct_nontrivial = distinct diagram texts'),
        'samples': [repr(ins[i])[:300] for i in (1, len(ins) // 2, len(ins) - 1)],
        'fresh_interpreter_seeds': list(seeds),
        'exhaustive': True,
    }
    return Result('C20', 'exploration', cov, assumptions=['parser accepts exactly the class/member/arrow line forms of labtech.diagram'],
                  violations=viols)


def replay(payload) -> int:
    silence_labtech()
    ins = inputs(payload.get('tier', 'quick'))
    tasks = ins[payload['input_index']]
    v, text = check_one(tasks)
    print(repr(tasks))
    print(text)
    for k, m in v:
        print(' ', k, m)
    return 1 if v else 0


if __name__ == '__main__':
    if len(sys.argv) >= 3 and sys.argv[1] == '--dump':
        silence_labtech()
        print(json.dumps(table(sys.argv[2])))
