"""C05 - runnable work is started whenever capacity is free (coordinator part)."""
from .. import families as F
from ..e2prop import replay, run_e2_property  # noqa: F401

ASSUME = [
    'rest point = every Runner.wait call; ready = needed, unsubmitted, all reference dependencies already yielded',
]


def run(tier: str, seed: int):
    if tier == 'quick':
        cfgs = (list(F.fam_limits(1, 4, batch=2, faults=False)) + list(F.fam_limits(1, 3, batch=3, faults=True, stutter=True))
                + list(F.fam_shapes(1, 4, batch=2)) + list(F.fam_limits_special(3)) + list(F.fam_limits_warm(3)) + list(F.fam_inherit(3)))
        serial = list(F.fam_limits(1, 3, batch=1)) + list(F.fam_limits_special(2)) + list(F.fam_inherit(2))
        rule = 'all DAG shapes n<=4 x type assignment {None,1,2}; n<=3 with faults/deaths and empty polls; pre-cached subsets; every completion order; oracle at every rest point'
        e3c = (list(F.fam_e3(F.fam_limits(1, 3, tnames=('TA', 'TB'), faults=True), workers=(1, 2, None)))
               + list(F.fam_e3(F.fam_limits_special(3, tnames=('TK', 'TC1', 'TC2')), workers=(3,), cpu_count=3, backends=('fork',), liveness=False))
               # a derived task type declared without a limit (its base type has one)
               + list(F.fam_e3([c for c in F.fam_inherit(3) if len(c.requested) == c.spec.n and not c.precached and c.requested[0][0] == 0], workers=(3,), cpu_count=3, backends=('fork',), liveness=False))
               # partially warm caches on the process runners (cached tasks next to runnable uncached ones)
               + list(F.fam_e3(F.fam_shapes(2, 3), workers=(2,), liveness=False))
               # a worker process that never exits after sending its result (a left-over non-daemon thread)
               + list(F.fam_e3(F.fam_limits(2, 3, tnames=('TA',)), workers=(1, 2), backends=('fork',), liveness=False, linger=True)))
    else:
        cfgs = (list(F.fam_limits(1, 3, batch=3, faults=True, tnames=('TA', 'TB', 'TC', 'TD'), stutter=True)) + list(F.fam_limits(4, 4, batch=3, faults=True, tnames=('TA', 'TB', 'TC', 'TD')))
                + list(F.fam_limits(5, 5, batch=2, tnames=('TB', 'TC'))) + list(F.fam_shapes(1, 4, batch=2)) + list(F.fam_shapes(5, 5, batch=2, pre=False)) + list(F.fam_limits_special(3, batch=3)) + list(F.fam_limits_warm(3, batch=3)) + list(F.fam_inherit(3, batch=3, faults=True)))
        serial = list(F.fam_limits(1, 4, batch=1)) + list(F.fam_limits_special(3))
        rule = 'n<=4 x {None,1,2,3} x faults (n<=3: with empty polls), batch<=3; n=5 (cold cache)'
        e3c = list(F.fam_e3(F.fam_limits(1, 3, tnames=('TA', 'TB', 'TC'), faults=True), workers=(1, 2, 3, None), cpu_count=3)) + list(F.fam_e3(F.fam_limits(4, 4, tnames=('TA', 'TB')), workers=(2, 3), cpu_count=3, liveness=False)) + list(F.fam_e3(F.fam_limits(2, 3, tnames=('TA', 'TB')), workers=(1, 2), linger=True)) + list(F.fam_e3(F.fam_limits_special(3), workers=(2, 3), cpu_count=3)) + list(F.fam_e3(F.fam_inherit(3), workers=(2, 3), cpu_count=3, liveness=False))
    # the Lab object has been through a call that a failure aborted while limited-type tasks were in flight
    cfgs = list(cfgs) + list(F.fam_history_abort(2))
    serial = list(serial) + list(F.fam_history_abort(2))
    e3c = list(e3c) + list(F.fam_e3([c for c in F.fam_history_abort(2) if c.spec.n <= 2], workers=(3,), cpu_count=3, backends=('fork',), liveness=False))
    cfgs = cfgs + list(F.fam_variants(2))       # dependencies held several times (placements)
    serial = serial + list(F.fam_variants(2))
    return run_e2_property('C05', tier, seed, cfgs, serial_configs=serial, e3_configs=e3c, barrier_cases=__import__('verif_lt.e4b', fromlist=['cases']).cases(tier), real_cases=list(F.fam_real(F.real_bases('limits'), workers=(1, 2))), rule=rule, assumptions=ASSUME)
