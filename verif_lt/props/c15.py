"""C15 - tasks are immutable values with consistent equality, hashing and copying."""
from __future__ import annotations

import dataclasses
import json
import pickle
from datetime import datetime, timedelta

from frozendict import frozendict

from labtech.exceptions import TaskError
from labtech.tasks import get_direct_dependencies
from labtech.types import ResultMeta, TaskResult, is_task

from .. import dtypes as A
from .. import dtypes_b as B
from ..common import Result, Violation, pmap, silence_labtech
from ..paramtree import build, canon, describe, find_tasks, trees, tree_size
from .c07 import FULL, SMALL, TINY

TYPES = {'Foo': A.Foo, 'FooBar': A.FooBar, 'BFoo': B.Foo, 'PFoo': A.PFoo, 'Leaf': A.Leaf, 'BLeaf': B.Leaf,
         'NoCacheT': A.NoCacheT, 'JFoo': A.JFoo}
OUTER = ('Foo', 'PFoo', 'BFoo', 'NoCacheT')
META = ResultMeta(start=datetime(2021, 5, 6, 7, 8, 9), duration=timedelta(seconds=3))


class Opaque:
    def __repr__(self):
        return 'Opaque()'


class YesMan:
    """An object that answers every attribute lookup truthily (a Mock, a lazy attribute proxy)."""

    def __getattr__(self, name):
        if name.startswith('__') and name.endswith('__'):
            raise AttributeError(name)
        return True

    def __repr__(self):
        return 'YesMan()'


class MyFloat(float):
    pass


class MyStr(str):
    pass


class MyInt(int):
    pass


import collections as _collections  # noqa: E402

BAD_VALUES = [('object', Opaque()), ('set', {1, 2}), ('bytes', b'x'), ('complex', 1j), ('frozenset', frozenset({1})),
              ('attribute-proxy', YesMan()), ('range', range(2)), ('bytearray', bytearray(b'x')), ('deque', _collections.deque([1]))]
# instances of subclasses of the scalar types are scalars too
SUBCLASS_SCALARS = [MyFloat(1.5), MyStr('s'), MyInt(3)]
BAD_KEYS = [('int-key', 1), ('none-key', None), ('tuple-key', ('a',)), ('enum-key', A.Color.RED)]


def build_u(tree, spelling=0):
    """build() extended with unsupported leaves ('u', obj) and bad dict keys ('dk', key, tree)."""
    k = tree[0]
    if k == 'u':
        return tree[1]
    if k == 'dk':
        d = {tree[1]: build_u(tree[2], spelling)}
        return frozendict(d) if spelling in (1, 2) else d
    if k == 's':
        return tree[1]
    if k == 'l':
        items = [build_u(t, spelling) for t in tree[1]]
        return tuple(items) if spelling in (1, 3) else items
    if k == 'd':
        items = list(tree[1])
        if spelling == 4:
            items.reverse()            # same mapping, other insertion order
        d = {kk: build_u(t, spelling) for kk, t in items}
        return frozendict(d) if spelling in (1, 2) else d
    if k == 'dk2':                     # a dict mixing a valid string key with an invalid key
        d = {'ok': build_u(tree[2], spelling), tree[1]: build_u(tree[2], spelling)}
        if spelling == 4:
            d = dict(reversed(list(d.items())))
        return frozendict(d) if spelling in (1, 2) else d
    if k == 't':
        return TYPES[tree[1]](build_u(tree[2], spelling))
    raise ValueError(k)


def mutate_positions(tree):
    """Yield every tree obtained by replacing one leaf / wrapping one position
    with an unsupported value or a dict with a non-string key."""
    def rec(t):
        k = t[0]
        if k == 's':
            for name, bad in BAD_VALUES:
                yield name, ('u', bad)
            for name, key in BAD_KEYS:
                yield name, ('dk', key, t)
                yield name + '+str-key', ('dk2', key, t)
        elif k == 'l':
            for i, sub in enumerate(t[1]):
                for name, m in rec(sub):
                    yield name, ('l', t[1][:i] + (m,) + t[1][i + 1:])
        elif k == 'd':
            for i, (kk, sub) in enumerate(t[1]):
                for name, m in rec(sub):
                    yield name, ('d', t[1][:i] + ((kk, m),) + t[1][i + 1:])
        elif k == 't':
            for name, m in rec(t[2]):
                yield name, ('t', t[1], m)
    yield from rec(tree)


def walk_collections(v, path='p'):
    """Yield (path, value) for every collection at every depth (incl. inside nested tasks)."""
    if isinstance(v, (list, tuple, dict, frozendict, set)):
        yield path, v
        if isinstance(v, (dict, frozendict)):
            for k, x in v.items():
                yield from walk_collections(x, f'{path}[{k!r}]')
        else:
            for i, x in enumerate(v):
                yield from walk_collections(x, f'{path}[{i}]')
    elif is_task(v):
        for f in v.__dataclass_fields__:
            yield from walk_collections(getattr(v, f), f'{path}.{f}')


def all_tasks_inside(t):
    out = [t]
    for f in t.__dataclass_fields__:
        for d in find_tasks(getattr(t, f)):
            out.extend(all_tasks_inside(d))
    return out


def check_supported(args):
    tn, tree, protos = args
    out = []
    d = f'{tn}(p={describe(tree)})'

    def bad(key, msg):
        out.append((key, f'{d}: {msg}', tree_size(tree)))
    try:
        t = TYPES[tn](p=build_u(tree, 0))
        t1 = TYPES[tn](p=build_u(tree, 1))
    except BaseException as e:  # noqa
        bad('supported-rejected', f'construction raised {type(e).__name__}: {e}')
        return out
    for sp in (2, 3, 4):
        # mixed spellings: mutable lists inside frozendicts, dicts inside tuples; 4 = dicts built in the reverse insertion order
        try:
            tm = TYPES[tn](p=build_u(tree, sp))
        except BaseException as e:  # noqa
            bad('supported-rejected', f'mixed spelling {sp}: construction raised {type(e).__name__}: {e}')
            continue
        for path, c in walk_collections(tm.p):
            if not isinstance(c, (tuple, frozendict)):
                bad('not-normalised', f'mixed spelling {sp}: {path} is a {type(c).__name__}')
        try:
            if not (tm == t) or hash(tm) != hash(t):
                bad('spelling-unequal', f'mixed spelling {sp} is not equal (with equal hash) to the list/dict spelling')
        except BaseException as e:  # noqa
            bad('unhashable', f'mixed spelling {sp}: {type(e).__name__}: {e}')
    for path, c in walk_collections(t.p):
        if not isinstance(c, (tuple, frozendict)):
            bad('not-normalised', f'{path} is a {type(c).__name__}')
    try:
        t.p = 1
        bad('not-frozen', 'attribute assignment succeeded')
    except (dataclasses.FrozenInstanceError, AttributeError):
        pass
    try:
        h = hash(t)
    except BaseException as e:  # noqa
        bad('unhashable', f'hash raised {type(e).__name__}: {e}')
        return out
    if not (t == t1) or hash(t1) != h:
        bad('spelling-unequal', 'list/dict and tuple/frozendict spellings are not equal with equal hash')
    for other in ('Foo', 'FooBar', 'BFoo', 'PFoo'):
        if other != tn:
            o = TYPES[other](p=build_u(tree, 0))
            if o == t:
                bad('cross-type-equal', f'equal to {other} task with the same parameters')
    ref_deps = [canon(x) for x in find_tasks(t.p)]
    try:
        deps = [canon(x) for x in get_direct_dependencies(t)]
        if deps != ref_deps:
            bad('deps-differ', f'get_direct_dependencies gives {deps}, reference {ref_deps}')
    except BaseException as e:  # noqa
        bad('deps-raised', f'get_direct_dependencies raised {type(e).__name__}: {e}')
    try:
        from labtech.serialization import Serializer
        json.dumps(Serializer().serialize_task(t))
    except BaseException as e:  # noqa
        bad('serialize-raised', f'serialize_task raised {type(e).__name__}: {e}')
    # give the original everything a copy must not carry
    inside = all_tasks_inside(t)
    rm = {x: TaskResult(value=('big', i), meta=META) for i, x in enumerate(inside)}
    for x in inside:
        x._set_results_map(rm)
        x.set_context({'secret': 'CTX'})
        x._set_result_meta(META)
    for proto in protos:
        try:
            blob = pickle.dumps(t, protocol=proto)
            c = pickle.loads(blob)
        except BaseException as e:  # noqa
            bad('pickle-raised', f'protocol {proto}: {type(e).__name__}: {e}')
            continue
        if not (c == t) or hash(c) != h:
            bad('copy-unequal', f'protocol {proto}: copy != original or hash differs')
        if c.cache_key != t.cache_key:
            bad('copy-key', f'protocol {proto}: cache_key {c.cache_key} != {t.cache_key}')
        try:
            cd = [canon(x) for x in get_direct_dependencies(c)]
            if cd != ref_deps:
                bad('copy-deps', f'protocol {proto}: dependencies of the copy {cd} != {ref_deps}')
        except BaseException as e:  # noqa
            bad('copy-deps', f'protocol {proto}: {type(e).__name__}: {e}')
        for x in all_tasks_inside(c):
            if getattr(x, '_results_map', None) is not None or hasattr(x, '_result'):
                bad('copy-carries-results', f'protocol {proto}: a results map travelled with the copy')
            if getattr(x, 'context', None) is not None:
                bad('copy-carries-context', f'protocol {proto}: context travelled with the copy')
            if type(x) is A.PFoo:
                want = ('derived', canon(x.p))
                if getattr(x, 'derived', None) != want or not callable(getattr(x, 'helper', None)) or x.helper() != want:
                    bad('copy-lacks-post-init', f"protocol {proto}: post_init-derived attribute is {getattr(x, 'derived', '<missing>')!r}, want {want!r}")
                if getattr(x, 'derived_key', None) != x.cache_key or getattr(x, 'derived_is_task', None) is not True:
                    bad('copy-post-init-too-early', f"protocol {proto}: post_init of the copy saw cache_key {getattr(x, 'derived_key', '<missing>')!r} / is_task "
                                                    f"{getattr(x, 'derived_is_task', '<missing>')!r} (the task has key {x.cache_key})")
        if b'CTX' in blob or b'big' in blob:
            bad('copy-carries-bytes', f'protocol {proto}: context/result bytes inside the pickle')
        for path, col in walk_collections(c.p):
            if not isinstance(col, (tuple, frozendict)):
                bad('copy-not-normalised', f'protocol {proto}: {path} is a {type(col).__name__}')
    return out


def check_unsupported(args):
    tn, name, tree = args
    out = []
    for sp in (0, 1, 2, 4):     # the unsupported value may sit inside a dict, a frozendict, a list or a tuple; 4 = reversed key order
        try:
            t = TYPES[tn](p=build_u(tree, sp))
        except TaskError:
            continue
        except BaseException as e:  # noqa
            out.append((f'unsupported-wrong-exception:{name}', f'{tn}(p={describe_u(tree)}) [spelling {sp}]: raised {type(e).__name__}: {e}', tree_size_u(tree)))
            continue
        out.append((f'unsupported-accepted:{name}', f'{tn}(p={describe_u(tree)}) [spelling {sp}] was accepted', tree_size_u(tree)))
    return out


def describe_u(tree):
    k = tree[0]
    if k == 'u':
        return repr(tree[1])
    if k == 'dk':
        return '{' + f'{tree[1]!r}: {describe_u(tree[2])}' + '}'
    if k == 'dk2':
        return '{' + f"'ok': {describe_u(tree[2])}, {tree[1]!r}: {describe_u(tree[2])}" + '}'
    if k == 's':
        return repr(tree[1])
    if k == 'l':
        return '[' + ', '.join(describe_u(t) for t in tree[1]) + ']'
    if k == 'd':
        return '{' + ', '.join(f'{kk!r}: {describe_u(t)}' for kk, t in tree[1]) + '}'
    return f'{tree[1]}({describe_u(tree[2])})'


def tree_size_u(tree):
    k = tree[0]
    if k in ('u', 's'):
        return 1
    if k in ('dk', 'dk2'):
        return 1 + tree_size_u(tree[2])
    if k == 'l':
        return 1 + sum(tree_size_u(t) for t in tree[1])
    if k == 'd':
        return 1 + sum(tree_size_u(t) for _, t in tree[1])
    return 1 + tree_size_u(tree[2])


def cross_items(tier):
    ts = trees(1, FULL, width=1, task_types=('Leaf', 'PFoo'), inner_leaves=FULL)
    if tier != 'quick':
        ts += trees(2, TINY, width=2, task_types=('Leaf', 'PFoo'), inner_leaves=TINY)
    return [(tn, t) for t in ts for tn in ('Foo', 'PFoo')]


def cross_dump(tier: str, path: str):
    """Fresh interpreter A: build, hash (as Lab.run_tasks does) and pickle the tasks."""
    silence_labtech()
    blobs = []
    for tn, tree in cross_items(tier):
        t = TYPES[tn](p=build_u(tree, 0))
        hash(t)
        {t: 1}
        blobs.append(pickle.dumps(t))
    with open(path, 'wb') as f:
        pickle.dump(blobs, f)


def cross_check(tier: str, path: str):
    """Fresh interpreter B (other hash seed): copies must equal freshly built tasks, same hash."""
    silence_labtech()
    with open(path, 'rb') as f:
        blobs = pickle.load(f)
    out = []
    for (tn, tree), blob in zip(cross_items(tier), blobs):
        fresh = TYPES[tn](p=build_u(tree, 0))
        c = pickle.loads(blob)
        d = f'{tn}(p={describe(tree)})'
        if not (c == fresh):
            out.append(['copy-unequal-across-interpreters', f'{d}: copy from another interpreter != freshly built task'])
        elif hash(c) != hash(fresh) or fresh not in {c} or c not in {fresh: 1}:
            out.append(['copy-hash-differs-across-interpreters', f'{d}: copy unpickled in an interpreter with another hash seed hashes differently from an equal fresh task'])
        if c.cache_key != fresh.cache_key:
            out.append(['copy-key', f'{d}: cache_key differs across interpreters'])
    print(json.dumps(out))


def check_equal_params():
    """Tasks built from parameters that compare equal (1 == 1.0 == True, enum-valued strings) are equal
    with equal hash; a parameterless task type survives every pickle protocol."""
    out = []
    groups = [[1, 1.0, True], [0, 0.0, False], ['RED', A.StrEnumLike.RED], [(1, 2), [1.0, 2.0]], [{'a': 1, 'b': 0}, {'b': False, 'a': 1.0}]]
    for g in groups:
        for wrap in (lambda v: v, lambda v: [v], lambda v: {'k': v}, lambda v: A.Leaf(v)):
            ts = [A.Foo(p=wrap(v)) for v in g]
            for a in ts[1:]:
                try:
                    if not (ts[0] == a) or hash(ts[0]) != hash(a) or a not in {ts[0]}:
                        out.append(('equal-params-unequal', f'{ts[0]!r} and {a!r} are built from equal parameters but are not equal with equal hash', 2))
                except BaseException as e:  # noqa
                    out.append(('equal-params-unequal', f'comparing {ts[0]!r} and {a!r} raised {type(e).__name__}: {e}', 2))
    for proto in range(0, pickle.HIGHEST_PROTOCOL + 1):
        for mk, name in ((lambda: A.Empty(), 'Empty()'), (lambda: A.HoldsEmpty(p=A.Empty()), 'HoldsEmpty(p=Empty())'),
                         (lambda: A.HoldsEmpty(p=[A.Empty(), {'k': A.Empty()}]), 'HoldsEmpty(p=[Empty(), {k: Empty()}])')):
            t = mk()
            try:
                c = pickle.loads(pickle.dumps(t, protocol=proto))
            except BaseException as e:  # noqa
                out.append(('pickle-raised', f'{name} protocol {proto}: {type(e).__name__}: {e}', 1))
                continue
            try:
                ok = (c == t) and hash(c) == hash(t) and c.cache_key == t.cache_key and is_task(c) and \
                    [canon(x) for x in get_direct_dependencies(c)] == [canon(x) for x in get_direct_dependencies(t)]
            except BaseException as e:  # noqa
                ok = False
            if not ok:
                out.append(('copy-unequal', f'{name} protocol {proto}: the copy is not an equal task with the same key and dependencies', 1))
    return out


def check_special_types():
    """Task types with class-level non-parameters (ClassVar), a derived task type adding a parameter,
    a post_init that canonicalises a parameter, and tasks built from a collection object that is
    changed between constructions."""
    out = []

    def bad(key, msg):
        out.append((key, msg, 2))

    # ClassVar attributes are not parameters
    for pv in (1, [1, {'k': A.Leaf(2)}]):
        try:
            t = A.CVFoo(p=pv)
        except BaseException as e:  # noqa
            bad('supported-rejected', f'CVFoo(p={pv!r}) (type with ClassVar attributes) raised {type(e).__name__}: {e}')
            continue
        for name in ('REGISTRY', 'GRID', 'BASELINE'):
            if name in vars(t) or getattr(t, name) is not getattr(A.CVFoo, name):
                bad('classvar-touched', f'CVFoo(p={pv!r}).{name} is no longer the class attribute')
        if not isinstance(A.CVFoo.GRID, list) or not isinstance(A.CVFoo.REGISTRY, set):
            bad('classvar-touched', 'class attributes of CVFoo were converted')
        ref = [canon(x) for x in find_tasks(t.p)]
        for what, obj in (('task', t), ('copy', pickle.loads(pickle.dumps(t)))):
            try:
                got = [canon(x) for x in get_direct_dependencies(obj)]
            except BaseException as e:  # noqa
                got = f'{type(e).__name__}: {e}'
            if got != ref:
                bad('deps-differ' if what == 'task' else 'copy-deps', f'dependencies of the {what} CVFoo(p={pv!r}) are {got}, reference {ref}')
            if not (obj == A.CVFoo(p=pv)) or hash(obj) != hash(A.CVFoo(p=pv)) or obj.cache_key != t.cache_key:
                bad('copy-unequal', f'{what} CVFoo(p={pv!r}) is not equal (hash, key) to a task built from equal parameters')
    # a derived task type with an added parameter
    for r1 in (0, 1, [A.Leaf(3)]):
        for r2 in (0, 1, [A.Leaf(3)], [A.Leaf(4)]):
            a, b = A.SubFoo(p=1, r=r1), A.SubFoo(p=1, r=r2)
            same = canon(a) == canon(b)
            if (a == b) != same or (same and hash(a) != hash(b)):
                bad('spelling-unequal' if same else 'distinct-equal', f'SubFoo(p=1, r={r1!r}) vs SubFoo(p=1, r={r2!r}): == is {a == b}')
        a = A.SubFoo(p=[A.Leaf(1)], q=2, r=r1)
        if a == A.Foo(p=[A.Leaf(1)], q=2) or A.Foo(p=[A.Leaf(1)], q=2) == a:
            bad('cross-type-equal', f'{a!r} equals the Foo task with the inherited parameters')
        ref = [canon(x) for x in find_tasks([a.p, a.q, a.r])]
        for proto in (2, 5):
            c = pickle.loads(pickle.dumps(a, protocol=proto))
            if not (c == a) or hash(c) != hash(a) or c.cache_key != a.cache_key or canon(c) != canon(a):
                bad('copy-unequal', f'protocol {proto}: copy of {a!r} is not an equal task with the same key')
            if [canon(x) for x in get_direct_dependencies(c)] != ref or [canon(x) for x in get_direct_dependencies(a)] != ref:
                bad('copy-deps', f'protocol {proto}: dependencies of {a!r} / its copy differ from {ref}')
            for path, col in walk_collections(c.r, 'r'):
                if not isinstance(col, (tuple, frozendict)):
                    bad('copy-not-normalised', f'protocol {proto}: {path} of SubFoo copy is a {type(col).__name__}')
    # equal tasks have equal hashes, whatever post_init did to the parameters
    group = [A.NFoo(p=v) for v in ('abc', 'ABC', ' abc ', 'Abc')]
    group += [pickle.loads(pickle.dumps(x)) for x in group]
    for x in group:
        for y in group:
            if x == y and (hash(x) != hash(y) or y not in {x} or len({x: 1, y: 2}) != 1):
                bad('equal-but-hash-differs', f'{x!r} == {y!r} but they hash differently (both went through the type\'s post_init)')
    # tuple subclasses made on the fly (a namedtuple, typing.NamedTuple) and list / dict subclasses are
    # collections like any other: the task is constructible, equal to the plain spelling, and its copy
    # crosses a process boundary although the classes themselves cannot be imported anywhere
    import typing
    Point = _collections.namedtuple('Pt', 'x y')
    TPoint = typing.NamedTuple('TPoint', [('a', int), ('b', typing.Any)])

    class MyList(list):
        pass
    for build_v, plain in ((lambda: Point(1, [2, A.Leaf(3)]), (1, [2, A.Leaf(3)])), (lambda: [TPoint(1, {'k': Point(0, 0)})], [(1, {'k': (0, 0)})]),
                           (lambda: {'k': Point(A.Leaf(1), None)}, {'k': (A.Leaf(1), None)}), (lambda: MyList([1, MyList([2])]), [1, [2]]),
                           (lambda: _collections.OrderedDict(b=1, a=MyList()), {'b': 1, 'a': []})):
        try:
            t = A.Foo(p=build_v())
        except BaseException as e:  # noqa
            bad('supported-rejected', f'Foo(p={build_v()!r}) raised {type(e).__name__}: {e}')
            continue
        ref = A.Foo(p=plain)
        if not (t == ref) or hash(t) != hash(ref) or t.cache_key != ref.cache_key:
            bad('spelling-unequal', f'{t!r} (built from collection subclasses) is not equal (hash, key) to the plain spelling {ref!r}')
        for proto in (2, 5):
            try:
                c = pickle.loads(pickle.dumps(t, protocol=proto))
            except BaseException as e:  # noqa
                bad('pickle-raised', f'protocol {proto}: {t!r} built from {build_v()!r}: {type(e).__name__}: {e}')
                continue
            if not (c == t) or hash(c) != hash(t) or c.cache_key != t.cache_key or [canon(x) for x in get_direct_dependencies(c)] != [canon(x) for x in find_tasks(ref.p)]:
                bad('copy-unequal', f'protocol {proto}: copy of {t!r} is not an equal task with the same key and dependencies')
    # flag enums: combinations and unnamed values
    for v in (A.Perm.R | A.Perm.X, A.Perm(0), A.IPerm.A | A.IPerm.B, A.IPerm(9)):
        t = A.Foo(p=[v, {'k': v}])
        for proto in (2, 5):
            try:
                c = pickle.loads(pickle.dumps(t, protocol=proto))
                if not (c == t) or hash(c) != hash(t) or c.cache_key != t.cache_key or c.p[0] is not v:
                    bad('copy-unequal', f'protocol {proto}: copy of {t!r} is not an equal task with the same key')
            except BaseException as e:  # noqa
                bad('pickle-raised', f'protocol {proto}: {t!r}: {type(e).__name__}: {e}')
    # a collection object that is changed between two constructions
    lst = [1]
    a = A.Foo(p=lst)
    lst.append(2)
    b = A.Foo(p=lst)
    if a.p != (1,) or b.p != (1, 2) or not (b == A.Foo(p=[1, 2])) or hash(b) != hash(A.Foo(p=[1, 2])) or b.cache_key != A.Foo(p=[1, 2]).cache_key or a == b:
        bad('stale-collection', f'Foo built from a list, list appended to, Foo built again: first has p={a.p!r}, second p={b.p!r}')
    dd = {'k': [A.Leaf(1)], 'j': {'x': 1}}
    a = A.Foo(p=dd)
    dd['k'].append(A.Leaf(2))
    dd['j']['y'] = 2
    b = A.Foo(p=dd)
    want = A.Foo(p={'k': [A.Leaf(1), A.Leaf(2)], 'j': {'x': 1, 'y': 2}})
    if not (b == want) or b.cache_key != want.cache_key or [canon(x) for x in get_direct_dependencies(b)] != [canon(x) for x in get_direct_dependencies(want)] or a == b:
        bad('stale-collection', f'Foo built from a dict whose nested collections were extended afterwards: second task has p={b.p!r}')
    dd['k'].append(Opaque())
    try:
        A.Foo(p=dd)
        bad('unsupported-accepted:object', 'an unsupported value appended to a list already used for an earlier task was accepted')
    except TaskError:
        pass
    except BaseException as e:  # noqa
        bad('unsupported-wrong-exception:object', f'{type(e).__name__}: {e}')
    return out


def _work(item):
    silence_labtech()
    kind, batch = item
    res = []
    for a in batch:
        res.extend(check_supported(a) if kind == 'sup' else check_unsupported(a))
    return kind, len(batch), res


def run(tier: str, seed: int) -> Result:
    silence_labtech()
    if tier == 'quick':
        sup = trees(2, TINY, width=2, task_types=('Leaf', 'BLeaf', 'PFoo'), inner_leaves=TINY)
        sup += trees(1, FULL, width=1, task_types=('Leaf',), inner_leaves=FULL)
        # several distinct nested tasks of a never-cached type (and of a second cache format) in one parameter
        sup += trees(2, TINY[:2], width=2, task_types=('NoCacheT', 'JFoo'), inner_leaves=TINY[:2])
        sup += trees(1, SUBCLASS_SCALARS, width=1, task_types=('Leaf', 'PFoo'), inner_leaves=SUBCLASS_SCALARS)
        protos = (2, 5)
        base_unsup = trees(2, TINY[:2], width=2, task_types=('Leaf',), inner_leaves=TINY[:2])
    else:
        sup = trees(2, SMALL, width=2, task_types=('Leaf', 'BLeaf', 'PFoo'), inner_leaves=SMALL)
        sup += trees(3, TINY, width=1, task_types=('Leaf', 'PFoo'), inner_leaves=TINY)
        sup += trees(3, [1], width=2, task_types=('Leaf',), inner_leaves=[1])
        sup += trees(1, FULL, width=2, task_types=('Leaf',), inner_leaves=FULL)
        sup += trees(2, TINY, width=2, task_types=('NoCacheT', 'JFoo', 'Leaf'), inner_leaves=TINY)
        sup += trees(2, SUBCLASS_SCALARS, width=2, task_types=('Leaf', 'PFoo'), inner_leaves=SUBCLASS_SCALARS)
        protos = (0, 1, 2, 3, 4, 5)
        base_unsup = trees(2, TINY[:3], width=2, task_types=('Leaf',), inner_leaves=TINY[:3])
    seen = set()
    sup_items = []
    for t in sup:
        r = repr(t)
        if r in seen:
            continue
        seen.add(r)
        for tn in OUTER if tier != 'quick' else ('Foo', 'PFoo'):
            sup_items.append((tn, t, protos))
    unsup_items = []
    for t in base_unsup:
        for name, m in mutate_positions(t):
            unsup_items.append(('Foo', name, m))
    work = [('sup', sup_items[i:i + 200]) for i in range(0, len(sup_items), 200)]
    work += [('unsup', unsup_items[i:i + 1000]) for i in range(0, len(unsup_items), 1000)]
    viols = []
    for kind, n, res in pmap(_work, work):
        for key, msg, size in res:
            viols.append(Violation('C15', key, msg, {'tier': tier, 'clause': key, 'msg': msg}, size=size))
    for key, msg, size in check_equal_params() + check_special_types():
        viols.append(Violation('C15', key, msg, {'tier': tier, 'clause': key, 'msg': msg}, size=size))
    # cross-interpreter slice: pickled in a fresh interpreter under one hash seed, loaded under another
    import os, subprocess, sys, tempfile, shutil
    tmpd = tempfile.mkdtemp(prefix='c15x_')
    n_cross = 0
    try:
        for sa, sb in (((1, 2),) if tier == 'quick' else ((1, 2), (2, 3), (3, 0))):
            pth = os.path.join(tmpd, f'b{sa}.pkl')
            pa = subprocess.run([sys.executable, '-m', 'verif_lt.props.c15', '--dump', tier, pth], env=dict(os.environ, PYTHONHASHSEED=str(sa)),
                                capture_output=True, text=True)
            if pa.returncode != 0:
                viols.append(Violation('C15', 'pickle-raised', f'pickling in a fresh interpreter failed: {pa.stderr[-400:]}', {'tier': tier, 'clause': 'pickle-raised'}, size=1))
                continue
            pb = subprocess.run([sys.executable, '-m', 'verif_lt.props.c15', '--check', tier, pth], env=dict(os.environ, PYTHONHASHSEED=str(sb)),
                                capture_output=True, text=True)
            if pb.returncode != 0:
                viols.append(Violation('C15', 'pickle-raised', f'unpickling in a fresh interpreter failed: {pb.stderr[-400:]}', {'tier': tier, 'clause': 'pickle-raised'}, size=1))
                continue
            n_cross += len(cross_items(tier))
            for key, msg in json.loads(pb.stdout.strip().splitlines()[-1]):
                viols.append(Violation('C15', key, f'[seeds {sa}->{sb}] {msg}', {'tier': tier, 'clause': key, 'msg': msg}, size=len(msg)))
    finally:
        shutil.rmtree(tmpd, ignore_errors=True)
    cov = {
        'cross_interpreter_copies': n_cross,
        'evaluations': len(sup_items) * (len(protos) + 1) + len(unsup_items) * 3 + n_cross,
        'distinct_nontrivial': len(sup_items) + len(unsup_items),
        'rule': (f'supported: every parameter tree to depth 2 (thorough: + depth 3: width 1 over 4 leaves, width 2 over 1 leaf) x outer types, pickle protocols {protos}; '
                 'unsupported: every supported tree of depth <=2 with one position replaced by object/set/bytes/complex/frozenset or wrapped in a dict '
                 'with an int/None/tuple/enum key; distinct_nontrivial = distinct (type, tree) constructions'),
        'samples': [f'{tn}(p={describe(t)}) protocols={p}' for tn, t, p in sup_items[:: max(1, len(sup_items) // 4)]][:4]
                   + [f'{tn}(p={describe_u(t)}) [{name}]' for tn, name, t in unsup_items[:: max(1, len(unsup_items) // 3)]][:3],
        'supported_constructions': len(sup_items),
        'unsupported_constructions': len(unsup_items),
        'exhaustive': True,
    }
    return Result('C15', 'exploration', cov, assumptions=[
        'reference dependency finder and canonical form are independent of labtech (paramtree.py)',
        'the original carries context, results map and result_meta before pickling',
    ], violations=viols)


def replay(payload) -> int:
    print(json.dumps(payload, indent=1))
    r = run(payload.get('tier', 'quick'), 0)
    keys = sorted({v.key for v in r.violations})
    print('violation keys now:', keys)
    return 1 if payload.get('clause') in keys else 0


if __name__ == '__main__':
    import sys
    if len(sys.argv) >= 4 and sys.argv[1] == '--dump':
        cross_dump(sys.argv[2], sys.argv[3])
    elif len(sys.argv) >= 4 and sys.argv[1] == '--check':
        cross_check(sys.argv[2], sys.argv[3])
