"""C02 - a task never starts before all of its dependencies have finished."""
from .. import families as F
from ..e2prop import replay, run_e2_property  # noqa: F401

ASSUME = [
    'start = Runner.submit_task(use_cache=False) as seen by the schedule-controlling runner; the body runs at completion time and records every dependency read',
    'reference dependencies come from the construction spec, not from labtech.get_direct_dependencies',
]


def run(tier: str, seed: int):
    if tier == 'quick':
        cfgs = (list(F.fam_shapes(1, 4, batch=2, pre=False)) + list(F.fam_variants(3, batch=2))
                + list(F.fam_faults(2, 4, max_faults=1, reqs='sinks', cofs=(True,)))
                + list(F.fam_shapes(2, 3, batch=2, bust=(True,))) + list(F.fam_types3())
                + list(F.fam_faults(2, 3, max_faults=1, reqs='sinks', cofs=(True,), kinds=('raise',), pre=True, bust=(True,)))
                + list(F.fam_corrupt(2, 3)) + list(F.fam_inherit(3)))
        serial = (list(F.fam_inherit(3)) + list(F.fam_shapes(1, 3, batch=1)) + list(F.fam_faults(2, 3, cofs=(True,), kinds=('raise',)))
                  + list(F.fam_shapes(2, 3, batch=1, bust=(True,))) + list(F.fam_variants(2)) + list(F.fam_corrupt(2, 3)))
        rule = ('all DAG shapes n<=4 x requested subsets, every completion order (batch<=2); n<=3 placements x dup x '
                'types x request variants x pre-cache; single faults (raise/died) n<=4; real SerialRunner slice')
        e3c = (list(F.fam_e3(list(F.fam_shapes(1, 3, pre=False)) + list(F.fam_faults(2, 3, cofs=(True,), reqs='sinks')), workers=(1, 2), liveness=False))
               + list(F.fam_e3(F.fam_variants(2), workers=(2,), liveness=False))     # placements / equal instances / types on the real process runners
               # several distinct never-cached dependencies of one task; failing re-executions over entries of an earlier run
               + list(F.fam_e3(list(F.fam_types3()) + list(F.fam_faults(2, 3, max_faults=1, reqs='sinks', cofs=(True,), kinds=('raise',), pre=True, bust=(True,))) + list(F.fam_corrupt(2, 3)),
                               workers=(2,), liveness=False))
               + list(F.fam_e3(F.fam_inherit(2), workers=(2,), liveness=False))     # derived task types holding dependencies in the parameter they add
               + list(F.fam_e3([c for c in F.fam_shapes(2, 2, pre=False) if len(c.requested) == c.spec.n], workers=(1, 2), liveness=False, prelude=True)) + list(F.fam_e3([c for c in F.fam_shapes(3, 3, pre=False) if len(c.requested) == c.spec.n and c.spec.deps[2]], workers=(2,), liveness=False, prelude=True))     # an earlier call through the same backend object was aborted by a failure
               # a result that reaches the queue just as its worker is seen dead
               + list(F.fam_e3(F.fam_shapes(2, 3, pre=False), workers=(2,), backends=('fork',))))
    else:
        cfgs = (list(F.fam_shapes(1, 5, batch=2, pre=False)) + list(F.fam_shapes(1, 4, batch=3))
                + list(F.fam_variants(3, batch=3))
                + list(F.fam_faults(2, 4, max_faults=2, reqs='subsets', cofs=(True,)))
                + list(F.fam_faults(5, 5, max_faults=1, reqs='sinks', cofs=(True,)))
                + list(F.fam_shapes(2, 4, batch=2, bust=(True,))) + list(F.fam_types3(('TA', 'TN', 'TM'))) + list(F.fam_inherit(3, batch=3, faults=True))
                + list(F.fam_faults(2, 4, max_faults=2, reqs='sinks', cofs=(True,), kinds=('raise',), pre=True, bust=(True,))))
        serial = list(F.fam_shapes(1, 4, batch=1, bust=(False, True))) + list(F.fam_faults(2, 4, cofs=(True,), kinds=('raise',))) + list(F.fam_variants(3))
        rule = 'n<=5 shapes (batch<=2), n<=4 (batch<=3) with pre-cache; fault sets <=2 on n<=4, <=1 on n=5'
        e3c = (list(F.fam_e3(list(F.fam_shapes(1, 3)) + list(F.fam_faults(2, 3, max_faults=2, cofs=(True,))), workers=(1, 2, None))) + list(F.fam_e3(F.fam_faults(4, 4, cofs=(True,), reqs='sinks'), workers=(2,), liveness=False))
               + list(F.fam_e3(F.fam_variants(3), workers=(2,), liveness=False))
               + list(F.fam_e3(list(F.fam_types3(('TA', 'TN', 'TM'))) + list(F.fam_faults(2, 3, max_faults=2, cofs=(True,), kinds=('raise',), pre=True, bust=(True,))), workers=(1, 2))))
    if tier != 'quick':
        x_cf, x_se, x_e3 = F.thorough_extras('C02')
        cfgs, serial, e3c = list(cfgs) + x_cf, list(serial) + x_se, list(e3c) + x_e3
    # dependencies whose result is None or an exception object
    cfgs = list(cfgs) + list(F.fam_none(3))
    serial = list(serial) + list(F.fam_none(2))
    e3c = list(e3c) + list(F.fam_e3(F.fam_none(2), workers=(2,), liveness=False))
    return run_e2_property('C02', tier, seed, cfgs, serial_configs=serial, e3_configs=e3c, real_cases=list(F.fam_real(F.real_bases('plain') + F.real_bases('faults'), workers=(2,))), rule=rule, assumptions=ASSUME)
