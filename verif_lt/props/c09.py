"""C09 - cached_tasks reconstructs every cached task faithfully.

Every parameter tree (bounded depth/width) x outer task types is cached through
a real serial run into a storage shared by several task types (one type's name
a prefix of another's, same qualified name in two modules) and cache formats
(PickleCache, a JSON format, a foreign format writing under the same keys);
then cached_tasks is queried for every type list and compared with what was
actually cached.
"""
from __future__ import annotations

import json
import shutil
import tempfile

import labtech
from labtech.cache import PickleCache
from labtech.types import ResultMeta, TaskResult

from .. import dtypes as A
from .. import dtypes_b as B
from ..common import Result, Violation, pmap, silence_labtech
from ..paramtree import build, canon, describe, find_tasks, trees, tree_size
from ..spec import FIXED_META
from ..storages import LocalFsspecStorage, LocalStorage, MemFsspecStorage, MemStorage
from ..universe import WORLD
from .c07 import FULL, SMALL, TINY

TYPES = {'Foo': A.Foo, 'FooBar': A.FooBar, 'Foo_': A.Foo_, 'BFoo': B.Foo, 'JFoo': A.JFoo, 'P2': A.P2,
         'Leaf': A.Leaf, 'BLeaf': B.Leaf, 'NoCacheT': A.NoCacheT, 'PFoo': A.PFoo, 'SFoo': A.SFoo}
OUTER = ('Foo', 'FooBar', 'Foo_', 'BFoo', 'JFoo', 'P2', 'PFoo', 'NoCacheT', 'SFoo')
QUERY_TYPES = (A.Foo, A.FooBar, A.Foo_, B.Foo, A.JFoo, A.P2, A.PFoo, A.Leaf, B.Leaf, A.NoCacheT, A.SFoo, A.DFoo, A.SubFoo, A.ShFit, A.ShFitAll, A.Fit__v2, A.Fit_, A.EFoo, A.ABFoo)


class AltPickle(PickleCache):
    """Foreign cache format that writes under the same keys as PickleCache."""


def all_inside(t):
    out = [t]
    for f in t.__dataclass_fields__:
        for d in find_tasks(getattr(t, f)):
            out.extend(all_inside(d))
    return out


def run_group(args):
    """One shared storage, a group of (outer type, tree) tasks."""
    storage_kind, group = args
    silence_labtech()
    out = []
    tmp = None
    if storage_kind == 'mem':
        storage = MemStorage()
    elif storage_kind == 'fsmem':
        storage = MemFsspecStorage()
    else:
        tmp = tempfile.mkdtemp(prefix='c09_')
        storage = LocalStorage(tmp) if storage_kind == 'local' else LocalFsspecStorage(tmp)
    try:
        tasks = [TYPES[tn](p=build(tree, types=TYPES)) for tn, tree in group]
        # a parameter whose default is not None: explicitly None, left at the default, nested
        tasks += [A.DFoo(p=len(group), q=None), A.DFoo(p=len(group)), A.Foo(p=[A.DFoo(p='n', q=None)])]
        # dict parameters whose keys are not in alphabetical order (top level, nested, inside a nested task)
        zd = {'zeta': 1, 'alpha': [2, {'y': None, 'b': 'a'}]}
        tasks += [A.Foo(p=dict(zd), q='zd'), A.JFoo(p=[dict(zd)]), A.Foo(p=A.Leaf(dict(zd)), q='zd')]
        # one parent holding nested tasks that compare equal but are spelled differently, and one nested
        # task object occurring several times (shared, and as separate equal objects)
        shared = A.Leaf('shared')
        mid = A.Foo(p=shared, q='mid')
        tasks += [A.Foo(p=[A.Leaf(1), A.Leaf(1.0)], q={'k': A.Leaf(True)}), A.Foo(p=[shared, shared], q={'k': shared}),
                  A.FooBar(p=[A.Leaf('sep'), A.Leaf('sep')], q=A.Leaf('sep')), A.Foo(p=[mid, mid], q=[mid, shared])]
        # a derived task type adding a parameter (entries differing in the added parameter only), and
        # prefix-named types configured with one shared cache object
        tasks += [A.SubFoo(p=1, r=0), A.SubFoo(p=1, r=1), A.SubFoo(p=1, q=A.Leaf('sub'), r=[A.Leaf('sub')]), A.ShFit(p=1), A.ShFitAll(p=1), A.ShFitAll(p=A.ShFit(p=2))]
        # type names with the key separator in them, cache formats with an empty / odd key prefix
        tasks += [A.Fit__v2(p=1), A.Fit__v2(p=[A.Leaf('f')], q=2), A.Fit_(p=1), A.EFoo(p=1), A.EFoo(p={'k': A.Leaf('e')}), A.ABFoo(p=1), A.ABFoo(p=[A.EFoo(p=2)])]
        WORLD.reset(epoch=1)
        lab = labtech.Lab(storage=storage, runner_backend='serial', notebook=False)
        # every other group runs under a frozen clock: start at the epoch boundary, duration exactly zero
        import labtech.runners.base as lt_base
        from datetime import datetime as _dt
        from ..savepath import FixedClock
        frozen = (len(group) + len(repr(group[0]))) % 2 == 0
        orig_dt = lt_base.datetime
        if frozen:
            lt_base.datetime = FixedClock
            FixedClock.script = [_dt(1970, 1, 1, 0, 0, 0)] * (20 * len(tasks) + 20)
        try:
            res = lab.run_tasks(tasks, disable_progress=True, disable_top=True)
            # tasks that compare equal (1 == 1.0 == True) but are different tasks with different keys,
            # cached by separate calls: three entries, three tasks to list
            eq_tasks = [A.Foo(p=v, q='eqv') for v in (1, 1.0, True)]
            for t in eq_tasks:
                lab.run_tasks([t], disable_progress=True, disable_top=True)
            tasks = tasks + eq_tasks
        finally:
            lt_base.datetime = orig_dt
        # expected cached set: every cacheable task anywhere in the group (by canonical form)
        # (ground truth for "was cached": the run() bodies recorded their own cache_key; tasks
        # that compare equal, e.g. Leaf(1) == Leaf(True), are executed only once per run)
        executed_keys = {ev[1][2] for ev in WORLD.log if ev[0] == 'start'}
        expected: dict = {}
        for t in tasks:
            for x in all_inside(t):
                if isinstance(x._lt.cache, labtech.cache.NullCache):
                    continue
                if x.cache_key not in executed_keys:
                    continue
                expected[(type(x), canon(x))] = x
        # a foreign-format entry under a PickleCache-style key of type Foo
        foreign = A.Foo(p='__foreign__')
        AltPickle().save(storage, foreign, TaskResult(value='F', meta=FIXED_META))
        # ... and the other way round: an entry written by plain PickleCache under a key of SFoo, whose
        # cache format is *derived* from PickleCache (same key prefix, different result encoding)
        foreign2 = A.SFoo(p='__foreign2__')
        PickleCache().save(storage, foreign2, TaskResult(value='F2', meta=FIXED_META))
        size = min(tree_size(tree) for _, tree in group)

        def bad(key, msg):
            out.append((key, f'[{storage_kind}] {msg}', size))
        # what a save killed while metadata.json (the last file written) was part-way out leaves behind:
        # a non-empty, cut-off metadata file.  Such an entry is simply not cached.
        partial = A.Foo(p='__partial__', q=[A.Leaf('x' * 50)])
        donor = next(x for x in expected.values() if type(x) is A.Foo)
        with storage.file_handle(donor.cache_key, 'metadata.json', mode='r') as fh:
            full_text = fh.read()
        with storage.file_handle(partial.cache_key, 'metadata.json', mode='w') as fh:
            fh.write(full_text[:max(1, len(full_text) // 2)])
        try:
            if lab.is_cached(partial):
                bad('partial-metadata-reported-cached', 'an entry whose metadata.json is cut off is reported as cached')
        except BaseException as e:  # noqa
            bad(f'is_cached-raised:{type(e).__name__}', f'is_cached() of an entry with a cut-off metadata.json raised {type(e).__name__}: {e}')
        got_by_type = {}
        for qt in QUERY_TYPES:
            try:
                got = list(lab.cached_tasks([qt]))
            except BaseException as e:  # noqa
                bad(f'cached_tasks-raised:{type(e).__name__}', f'cached_tasks([{qt.__module__}.{qt.__qualname__}]) raised {type(e).__name__}: {e}')
                continue
            got_by_type[qt] = got
            want = {c: x for (ty, c), x in expected.items() if ty is qt}
            seen = {}
            for g in got:
                if type(g) is not qt:
                    bad('wrong-type-returned', f'cached_tasks([{qt.__qualname__}]) returned a {type(g).__module__}.{type(g).__qualname__}')
                    continue
                c = canon(g)
                seen[c] = seen.get(c, 0) + 1
                if c not in want:
                    if g == foreign or g == foreign2:
                        bad('foreign-format-returned', f'cached_tasks([{qt.__qualname__}]) returned an entry written by another cache format')
                    else:
                        bad('not-faithful', f'cached_tasks([{qt.__qualname__}]) returned {g!r}, which equals no cached task '
                                            f'(cached: {[describe_task(x) for x in list(want.values())[:3]]}...)')
                    continue
                orig = want[c]
                if not (g == orig):
                    bad('not-equal', f'returned {g!r} != original {orig!r}')
                if g.cache_key != orig.cache_key:
                    bad('key-differs', f'returned task key {g.cache_key} != {orig.cache_key}')
                if g.result_meta is None or orig.result_meta is None or g.result_meta != orig.result_meta:
                    bad('meta-differs', f'returned result_meta {g.result_meta!r} != stored {orig.result_meta!r} for {describe_task(orig)}')
            for c, x in want.items():
                n = seen.get(c, 0)
                if n == 0:
                    bad('missing', f'cached task {describe_task(x)} not returned by cached_tasks([{qt.__qualname__}])')
                elif n > 1:
                    bad('duplicate', f'cached task {describe_task(x)} returned {n} times')
        # multi-type queries return the union, each once
        for combo in ((A.Foo, A.FooBar), (A.FooBar, A.Foo), (A.Foo, B.Foo, A.Foo_), (A.Leaf, B.Leaf, A.JFoo), (A.Foo, A.Foo), (A.Leaf, A.Foo, A.Leaf)):
            if not all(q in got_by_type for q in combo):
                continue
            try:
                got = list(lab.cached_tasks(list(combo)))
            except BaseException as e:  # noqa
                bad(f'cached_tasks-raised:{type(e).__name__}', f'cached_tasks({[q.__qualname__ for q in combo]}) raised {e}')
                continue
            distinct = list(dict.fromkeys(combo))       # a type named twice still selects its entries once
            want_n = sum(len(got_by_type[q]) for q in distinct)
            if len(got) != want_n or sorted(map(repr, (canon(g) for g in got))) != sorted(
                    repr(canon(g)) for q in distinct for g in got_by_type[q]):
                bad('multi-type-query', f'cached_tasks({[q.__qualname__ for q in combo]}) returned {len(got)} tasks, per-type queries {want_n}')
        # running the returned tasks loads the stored results
        for qt, got in got_by_type.items():
            good = [g for g in got if type(g) is qt and (qt, canon(g)) in expected]
            if not good:
                continue
            WORLD.reset(epoch=2)
            lab2 = labtech.Lab(storage=storage, runner_backend='serial', notebook=False)
            eq_keys = {t.cache_key for t in eq_tasks}
            try:
                # (tasks that compare equal to one another are separate tasks only across calls)
                r2 = lab2.run_tasks([g for g in good if g.cache_key not in eq_keys], disable_progress=True, disable_top=True)
                separately = []
                for g in good:
                    if g.cache_key in eq_keys:
                        one = lab2.run_tasks([g], disable_progress=True, disable_top=True)
                        separately.append((g, one.get(g, '<missing>')))
            except BaseException as e:  # noqa
                bad(f'rerun-raised:{type(e).__name__}', f'run_tasks(cached_tasks([{qt.__qualname__}])) raised {type(e).__name__}: {e}')
                continue
            if any(ev[0] == 'start' for ev in WORLD.log):
                bad('rerun-executed', f'running the tasks returned for {qt.__qualname__} executed run() instead of loading')
            for g in good:
                orig = expected[(qt, canon(g))]
                stored = orig_value(orig, res, storage)
                got_v = next((v for k, v in separately if k is g), None) if g.cache_key in eq_keys else r2.get(g, '<missing>')
                if got_v != stored:
                    bad('rerun-wrong-value', f'loaded {got_v!r} for {describe_task(orig)}, stored {stored!r}')
        return len(group), out
    finally:
        if isinstance(storage, MemStorage):
            storage.release()
        if isinstance(storage, MemFsspecStorage):
            storage.destroy()
        if tmp:
            shutil.rmtree(tmp, ignore_errors=True)


def orig_value(orig, res, storage):
    if orig in res:
        return res[orig]
    return orig._lt.cache.load_result_with_meta(storage, orig).value


def describe_task(t):
    return f'{type(t).__module__.split(".")[-1]}.{type(t).__qualname__}({", ".join(f"{f}={getattr(t, f)!r}" for f in t.__dataclass_fields__)})'[:200]


def make_groups(ts, outer_cycle, per_group=24):
    items = []
    for i, t in enumerate(ts):
        items.append(('Foo', t))
        items.append((outer_cycle[i % len(outer_cycle)], t))
    # interleave so that each group mixes types and shapes
    groups = [items[i::max(1, len(items) // per_group)] for i in range(max(1, len(items) // per_group))]
    return [g for g in groups if g]


def run(tier: str, seed: int) -> Result:
    silence_labtech()
    cyc = ('FooBar', 'Foo_', 'BFoo', 'JFoo', 'P2', 'PFoo', 'NoCacheT', 'SFoo')
    if tier == 'quick':
        ts = trees(2, TINY, width=2, task_types=('Leaf', 'BLeaf'), inner_leaves=TINY)
        ts += trees(1, FULL, width=1, task_types=('Leaf',), inner_leaves=FULL)
        fs_ts = trees(1, TINY, width=2, task_types=('Leaf', 'BLeaf'), inner_leaves=TINY)
    else:
        ts = trees(2, SMALL, width=2, task_types=('Leaf', 'BLeaf'), inner_leaves=SMALL)
        ts += trees(1, FULL, width=2, task_types=('Leaf',), inner_leaves=FULL)
        fs_ts = trees(2, TINY, width=2, task_types=('Leaf', 'BLeaf'), inner_leaves=TINY)
    from .c07 import lookalikes
    for _, la, real in lookalikes():
        ts += [la, real, ('l', (la, real))]
    seen, uniq = set(), []
    for t in ts:
        r = repr(t)
        if r not in seen:
            seen.add(r)
            uniq.append(t)
    work = [('mem', g) for g in make_groups(uniq, cyc)]
    work += [('local', g) for g in make_groups(fs_ts, cyc)]
    work += [('fsspec', g) for g in make_groups(fs_ts, cyc)]
    work += [('fsmem', g) for g in make_groups(fs_ts, cyc)]
    viols = []
    n = 0
    # task types defined in the main script, cached by real spawn / fork workers, listed afterwards
    from .c06 import main_script_case
    for res, cnt in pmap(main_script_case, [('spawn', 'serial'), ('fork', 'spawn')]):
        n += cnt
        for key, msg, size in res:
            if key.startswith('main-script'):
                viols.append(Violation('C09', key, msg, {'tier': tier, 'clause': key, 'msg': msg}, size=900))
    for cnt, res in pmap(run_group, work):
        n += cnt
        for key, msg, size in res:
            viols.append(Violation('C09', key, msg, {'tier': tier, 'clause': key, 'msg': msg}, size=size))
    cov = {
        'evaluations': n,
        'distinct_nontrivial': len(uniq) * 2 + len(fs_ts) * 4,
        'rule': ('every parameter tree to depth 2 (scalars, 4 enum classes, lists, dicts, nested tasks of two modules) as parameter of Foo and of a '
                 'second outer type cycling over prefix-named / same-named / JSON-format / protocol-2 / post_init / uncached types; groups of ~2x24 tasks '
                 'share one storage (in-memory; LocalStorage, fsspec-local and fsspec-in-memory slices) together with a foreign-format entry; all single-type and 4 '
                 'multi-type cached_tasks queries + reload of the returned tasks; distinct_nontrivial = distinct (type, tree) tasks cached'),
        'samples': [f'{tn}(p={describe(t)})' for g in (work[0][1][:2], work[-1][1][:2]) for tn, t in g],
        'storage_groups': len(work),
        'exhaustive': True,
    }
    return Result('C09', 'exploration', cov, assumptions=[
        'entries are created through real serial-backend runs; the foreign-format entry through a PickleCache subclass save()',
        'equality of reconstructed tasks judged both by == and by an independent canonical form',
    ], violations=viols)


def replay(payload) -> int:
    print(json.dumps(payload, indent=1))
    r = run(payload.get('tier', 'quick'), 0)
    keys = sorted({v.key for v in r.violations})
    print('violation keys now:', keys)
    return 1 if payload.get('clause') in keys else 0
