"""C07 - cache keys are deterministic and distinguish every distinct task.

Small-scope enumeration of all parameter trees (depth/width bounded) over a
collision-prone scalar alphabet x task-type alphabet.  Oracles:
 (a) determinism: rebuild, list/tuple + dict/frozendict spelling, pickle round
     trip, deserialize(serialize), fresh interpreters with other hash seeds;
 (b) injectivity: tasks with different typed canonical forms never share a key;
 (c) LocalStorage accepts every key.
"""
from __future__ import annotations

import json
import os
import pickle
import subprocess
import sys
import tempfile
import shutil

from .. import dtypes as A
from .. import dtypes_b as B
from ..common import HarnessError, Result, Timer, Violation, pmap, silence_labtech, stable_hash
from ..paramtree import build, canon, describe, trees, tree_size

INF = float('inf')
FULL = [None, True, False, 0, 1, -1, 2 ** 63, 0.0, 1.0, 1.5, 1e-300, INF, -INF, 'inf', 'Infinity', '-inf', 'nan', 'NaN', '', 'a', 'A', '1', '1.0', 'None', 'null', 'true',
        '[]', 'é', 'a/b', ' ', 'RED', A.Color.RED, A.Color.GREEN, A.Shade.RED, B.Color.RED, A.StrEnumLike.RED,
        'caf\u00e9', 'cafe\u0301', '\u212b', '\u00c5',      # canonically equivalent, different code point sequences
        A.Perm.R, A.Perm.RW, A.Perm.R | A.Perm.X, A.Perm.W | A.Perm.X, A.Perm(0), A.IPerm.A | A.IPerm.B, A.IPerm(0), A.IPerm(8), A.IPerm(9)]
SMALL = [None, True, 1, 1.0, '1', 'a', A.Color.RED, A.Shade.RED]
TINY = [None, 1, '1', A.Color.RED]

TYPES = {'Foo': A.Foo, 'FooBar': A.FooBar, 'Foo_': A.Foo_, 'BFoo': B.Foo, 'JFoo': A.JFoo, 'P2': A.P2,
         'Leaf': A.Leaf, 'BLeaf': B.Leaf, 'NoCacheT': A.NoCacheT, 'PFoo': A.PFoo,
         'Modèle': getattr(A, 'Modèle'), 'Эксперимент': getattr(A, 'Эксперимент'), 'DFoo': A.DFoo, 'SubFoo': A.SubFoo, 'Fit__v2': A.Fit__v2, 'Fit_': A.Fit_, 'EFoo': A.EFoo, 'ABFoo': A.ABFoo}
OUTER = ('Foo', 'BFoo', 'FooBar', 'Foo_', 'JFoo', 'P2', 'PFoo', 'Modèle', 'Эксперимент')


def lookalikes():
    """Dict parameters spelled like labtech's serialised form of a task / enum."""
    return [
        ('lookalike-task', ('d', (('_is_task', ('s', True)), ('__class__', ('s', 'verif_lt.dtypes.Leaf')), ('v', ('s', 1)))),
         ('t', 'Leaf', ('s', 1))),
        ('lookalike-enum', ('d', (('_is_enum', ('s', True)), ('__class__', ('s', 'verif_lt.dtypes.Color')), ('name', ('s', 'RED')))),
         ('s', A.Color.RED)),
        ('lookalike-dict', ('d', (('_is_dict', ('s', True)), ('items', ('d', (('_is_task', ('s', True)), ('__class__', ('s', 'verif_lt.dtypes.Leaf')), ('v', ('s', 1))))))),
         ('d', (('_is_task', ('s', True)), ('__class__', ('s', 'verif_lt.dtypes.Leaf')), ('v', ('s', 1))))),
    ]


def space(tier: str):
    """Deterministic list of (description, outer type name, tree-p, tree-q)."""
    if tier == 'quick':
        ts = trees(2, TINY, width=2, task_types=('Leaf', 'BLeaf'), inner_leaves=TINY)
        ts += [('s', v) for v in FULL if ('s', v) not in ts]
        ts += trees(1, FULL, width=1, task_types=('Leaf',), inner_leaves=FULL)
        ts += trees(2, TINY[:2], width=2, task_types=('NoCacheT', 'JFoo'), inner_leaves=TINY[:2])
    else:
        ts = trees(2, SMALL, width=2, task_types=('Leaf', 'BLeaf'), inner_leaves=SMALL)
        ts += trees(3, TINY, width=1, task_types=('Leaf', 'BLeaf'), inner_leaves=TINY)
        ts += trees(3, [1], width=2, task_types=('Leaf',), inner_leaves=[1])
        ts += trees(1, FULL, width=2, task_types=('Leaf', 'BLeaf'), inner_leaves=FULL)
        ts += trees(2, TINY, width=2, task_types=('NoCacheT', 'JFoo', 'Leaf'), inner_leaves=TINY)
    seen = set()
    out = []
    for t in ts:
        r = repr(t)
        if r in seen:
            continue
        seen.add(r)
        for tn in OUTER:
            out.append((tn, t, None))
    # field-name sensitivity: p/q swaps
    for x in SMALL:
        for y in SMALL:
            out.append(('Foo', ('s', x), ('s', y)))
    for _, la, real in lookalikes():
        out.append(('Foo', la, None))
        out.append(('Foo', real, None))
    # a parameter with a non-None default: left out, passed explicitly as None, as the default, as something else
    for x in SMALL:
        for y in (None, ('s', None), ('s', 100), ('s', 0), ('s', 'a')):
            out.append(('DFoo', ('s', x), y))
    out.append(('Foo', ('t', 'DFoo', ('s', 1)), None))
    # type names containing / ending with the key separator; cache formats with an empty or odd key prefix
    for tn in ('Fit__v2', 'Fit_', 'EFoo', 'ABFoo'):
        for x in SMALL:
            out.append((tn, ('s', x), None))
        out.append((tn, ('l', (('t', 'Leaf', ('s', 1)), ('s', 'a'))), ('t', 'Leaf', ('s', 2))))
    # sequences of numbers whose digits run together the same way
    for seq in ((1, 23), (12, 3), (123,), (1, 2, 3), (1.5, 2), (1.52,), (15, 2), ('1', 23), ('12', '3'), (-1, 2), (-12,), (1, -2)):
        tr = ('l', tuple(('s', x) for x in seq))
        out.append(('Foo', tr, None))
        out.append(('JFoo', ('d', (('k', tr),)), None))
        out.append(('Foo', ('t', 'Leaf', tr), None))
    # a derived task type that adds a parameter (third element = the added parameter r): tasks differing
    # only in r, or only in an inherited parameter
    for x in SMALL[:4]:
        for y in SMALL:
            out.append(('SubFoo', ('s', x), ('s', y)))
    out.append(('SubFoo', ('s', 1), ('l', (('t', 'Leaf', ('s', 1)),))))
    out.append(('SubFoo', ('s', 1), ('l', (('t', 'Leaf', ('s', 2)),))))
    # dict parameters whose keys are not in alphabetical order (top level, in a list, in a nested task)
    zd = ('d', (('zeta', ('s', 1)), ('alpha', ('s', 2)), ('mid', ('d', (('y', ('s', None)), ('b', ('s', 'a')))))))
    for tn in ('Foo', 'JFoo', 'PFoo'):
        out.append((tn, zd, None))
        out.append((tn, ('l', (zd, ('s', 1))), None))
        out.append((tn, ('t', 'Leaf', zd), None))
    return out


def make(item, spelling=0):
    tn, tp, tq = item
    kw = {'p': build(tp, types=TYPES, spelling=spelling)}
    if tn == 'SubFoo':
        A.Foo(p=0)       # the base type has been in use before the derived one
        kw['r'] = build(tq, types=TYPES, spelling=spelling)
        return TYPES[tn](**kw)
    if tq is not None:
        kw['q'] = build(tq, types=TYPES, spelling=spelling)
    return TYPES[tn](**kw)


def key_table(tier: str):
    return [make(it).cache_key for it in space(tier)]


def item_desc(item):
    tn, tp, tq = item
    if tn == 'SubFoo':
        return f"SubFoo(p={describe(tp)}, r={describe(tq)})"
    return f"{tn}(p={describe(tp)}" + (f", q={describe(tq)})" if tq is not None else ')')


def is_lookalike(item):
    for name, la, _ in lookalikes():
        if item[1] == la:
            return name
    return None


def _chunk(args):
    tier, lo, hi = args
    silence_labtech()
    from labtech.storage import LocalStorage
    from labtech.serialization import Serializer
    from labtech.cache import NullCache
    from labtech.types import TaskResult
    from ..sched_runner import MemStorage
    from ..spec import FIXED_META
    mem = MemStorage()
    items = space(tier)
    ser = Serializer()
    tmp = tempfile.mkdtemp(prefix='c07_')
    viols = []
    keys = []
    forms = []
    try:
        storage = LocalStorage(tmp)
        for idx in range(lo, hi):
            it = items[idx]
            t = make(it)
            keys.append(t.cache_key)
            forms.append(canon(t))
            d = item_desc(it)

            def bad(aspect, other):
                viols.append(Violation('C07', f'nondeterministic:{aspect}',
                                       f'{d}: key {t.cache_key} but {aspect} gives {other}',
                                       {'item': repr(it), 'tier': tier, 'index': idx, 'aspect': aspect}, size=tree_size(it[1])))
            t2 = make(it)
            if t2.cache_key != t.cache_key:
                bad('rebuild', t2.cache_key)
            t3 = make(it, spelling=1)
            if t3.cache_key != t.cache_key:
                bad('tuple/frozendict-spelling', t3.cache_key)
            # (pickle protocols < 3 cannot name a non-ASCII global - a limit of pickle, not of labtech)
            for proto in ((2, pickle.HIGHEST_PROTOCOL) if it[0].isascii() else (4, pickle.HIGHEST_PROTOCOL)):
                t4 = pickle.loads(pickle.dumps(t, protocol=proto))
                if t4.cache_key != t.cache_key:
                    bad(f'pickle-{proto}', t4.cache_key)
            try:
                t5 = ser.deserialize_task(ser.serialize_task(t), result_meta=None)
                if t5.cache_key != t.cache_key:
                    bad('reconstruct-from-metadata', t5.cache_key)
            except BaseException as e:  # noqa
                bad('reconstruct-from-metadata', f'{type(e).__name__}: {e}')
            # reconstruction from what a real save() stores: metadata written through the cache of the
            # type, read back by load_task (the path cached_tasks uses)
            if not isinstance(t._lt.cache, NullCache):
                try:
                    t._lt.cache.save(mem, t, TaskResult(value=None, meta=FIXED_META))
                    t6 = t._lt.cache.load_task(mem, type(t), t.cache_key)
                    if t6.cache_key != t.cache_key:
                        bad('reconstruct-from-stored-metadata', t6.cache_key)
                    mem.d.clear()
                except BaseException as e:  # noqa
                    bad('reconstruct-from-stored-metadata', f'{type(e).__name__}: {e}')
            try:
                storage.exists(t.cache_key)
            except BaseException as e:  # noqa
                viols.append(Violation('C07', 'key-rejected-by-LocalStorage', f'{d}: exists({t.cache_key!r}) raised {type(e).__name__}: {e}',
                                       {'item': repr(it), 'tier': tier, 'index': idx}, size=tree_size(it[1])))
    finally:
        shutil.rmtree(tmp, ignore_errors=True)
    return lo, keys, forms, viols


MAIN_SCRIPT = r"""
import json, multiprocessing, pickle, sys
import labtech


@labtech.task
class Inner:
    v: int

    def run(self):
        return self.v


@labtech.task
class Outer:
    p: object
    q: object = None

    def run(self):
        return None


def child(blob, q):
    t = pickle.loads(blob)
    q.put([t.cache_key, [d.cache_key for d in labtech.tasks.get_direct_dependencies(t)]])


def build():
    return [Outer(p=1), Outer(p=Inner(v=1)), Outer(p=[Inner(v=1), {'k': Inner(v=2)}], q='x'), Inner(v=3)]


if __name__ == '__main__':
    out = []
    for method in ('fork', 'spawn'):
        ctx = multiprocessing.get_context(method)
        for t in build():
            q = ctx.Queue()
            pr = ctx.Process(target=child, args=(pickle.dumps(t), q))
            pr.start()
            got = q.get(timeout=120)
            pr.join()
            out.append([method, repr(t), t.cache_key, [d.cache_key for d in labtech.tasks.get_direct_dependencies(t)], got])
    print(json.dumps(out))
"""


def main_script_slice(tmp):
    """Task types defined in the script being run (module __main__): a copy that crosses into a
    forked / spawned worker (where the script is imported as __mp_main__) keeps its key."""
    path = os.path.join(tmp, 'c07_main_script.py')
    with open(path, 'w') as f:
        f.write(MAIN_SCRIPT)
    p = subprocess.run([sys.executable, path], capture_output=True, text=True, timeout=600, cwd=tmp)
    if p.returncode != 0:
        raise HarnessError(f'main-script slice failed: {p.stderr[-1500:]}')
    rows = json.loads(p.stdout.strip().splitlines()[-1])
    viols = []
    for method, rep, key, depkeys, got in rows:
        if got[0] != key or got[1] != depkeys:
            viols.append(Violation('C07', f'nondeterministic:main-script-task-in-{method}-worker',
                                   f'{rep} (type defined in the main script): key {key} / dependency keys {depkeys} in the caller, {got} after '
                                   f'unpickling in a {method} worker', {'tier': 'quick', 'aspect': 'main-script', 'method': method}, size=3))
    return len(rows), viols


def _sweep(rng):
    silence_labtech()
    lo, hi = rng
    return lo, [A.Foo(p=i).cache_key for i in range(lo, hi)]


def shared_object_pairs():
    """The same parameter values built with ONE nested task object used several times, and with a
    separate equal object per occurrence: the key depends on the values only."""
    out = []
    for mk_leaf in (lambda: A.Leaf(1), lambda: A.Leaf([A.Leaf('in')]), lambda: A.NoCacheT(p=1), lambda: B.Leaf(A.Color.RED)):
        for shape in (lambda f: A.Foo(p=[f(), f()]), lambda f: A.Foo(p=f(), q=f()), lambda f: A.Foo(p={'a': f(), 'b': [f()]}, q=f()),
                      lambda f: A.Foo(p=[A.Foo(p=f()), A.Foo(p=f())]), lambda f: A.JFoo(p=[f(), [f(), {'k': f()}]]), lambda f: A.Foo(p=[A.Foo(p=f(), q=1), f()])):
            one = mk_leaf()
            out.append((shape(lambda: one), shape(mk_leaf)))
    return out


def run(tier: str, seed: int) -> Result:
    silence_labtech()
    items = space(tier)
    viols = []
    for shared, separate in shared_object_pairs():
        if shared.cache_key != separate.cache_key or not (shared == separate):
            viols.append(Violation('C07', 'nondeterministic:shared-nested-object',
                                   f'{shared!r}: key {shared.cache_key} when one nested task object is used at every occurrence, {separate.cache_key} with a separate equal object per occurrence',
                                   {'tier': tier, 'aspect': 'shared-nested-object'}, size=6))
    by_key: dict = {}
    evals = 0
    tmp = tempfile.mkdtemp(prefix='c07_')
    try:
        keys0 = [None] * len(items)
        step = max(200, len(items) // 64)
        for lo, keys, forms, vs in pmap(_chunk, [(tier, lo, min(lo + step, len(items))) for lo in range(0, len(items), step)]):
            viols.extend(vs)
            for off, (k, c) in enumerate(zip(keys, forms)):
                keys0[lo + off] = k
                by_key.setdefault(k, []).append((c, lo + off))
                evals += 1
        # (b) injectivity
        collisions = 0
        for k, lst in by_key.items():
            forms = {}
            for c, idx in lst:
                forms.setdefault(c, idx)
            if len(forms) > 1:
                collisions += 1
                idxs = sorted(forms.values())
                la = [is_lookalike(items[i]) for i in idxs]
                la = [x for x in la if x]
                key = f'collision:{la[0]}' if la else 'collision'
                viols.append(Violation('C07', key, f'distinct tasks share key {k}: ' + ' vs '.join(item_desc(items[i]) for i in idxs[:3]),
                                       {'items': [repr(items[i]) for i in idxs[:3]], 'tier': tier}, size=min(tree_size(items[i][1]) for i in idxs)))
        # key entropy: a long run of tasks differing in one small integer (a shortened or weak
        # hash would collide here long before it does on the structured trees above)
        sweep_n = 200_000 if tier == 'quick' else 1_000_000
        seen_sweep: dict = {}
        for lo, ks in pmap(_sweep, [(lo, min(lo + 25_000, sweep_n)) for lo in range(0, sweep_n, 25_000)]):
            for off, k in enumerate(ks):
                evals += 1
                if k in seen_sweep:
                    viols.append(Violation('C07', 'collision:int-sweep', f'Foo(p={seen_sweep[k]}) and Foo(p={lo + off}) share key {k}',
                                           {'tier': tier, 'a': seen_sweep[k], 'b': lo + off}, size=5))
                    break
                seen_sweep[k] = lo + off
        n_ms, vs = main_script_slice(tmp)
        evals += n_ms
        viols.extend(vs)
        # fresh interpreters with other hash seeds
        seeds = (1,) if tier == 'quick' else (1, 2, 3)
        procs = []
        for s in seeds:
            env = dict(os.environ, PYTHONHASHSEED=str(s))
            procs.append((s, subprocess.Popen([sys.executable, '-m', 'verif_lt.props.c07', '--dump', tier],
                                              stdout=subprocess.PIPE, stderr=subprocess.PIPE, env=env, text=True)))
        for s, p in procs:
            out, err = p.communicate(timeout=1200)
            if p.returncode != 0:
                raise HarnessError(f'key-table subprocess (seed {s}) failed: {err[-2000:]}')
            keys_s = json.loads(out)
            evals += len(keys_s)
            if len(keys_s) != len(keys0):
                raise HarnessError('key tables have different lengths')
            for idx, (a, b) in enumerate(zip(keys0, keys_s)):
                if a != b:
                    viols.append(Violation('C07', 'nondeterministic:fresh-interpreter',
                                           f'{item_desc(items[idx])}: key {a} here, {b} in a fresh interpreter with PYTHONHASHSEED={s}',
                                           {'item': repr(items[idx]), 'tier': tier, 'index': idx, 'seed': s}, size=tree_size(items[idx][1])))
                    break
    finally:
        shutil.rmtree(tmp, ignore_errors=True)
    distinct_forms = len({c for lst in by_key.values() for c, _ in lst})
    cov = {
        'evaluations': evals,
        'distinct_nontrivial': distinct_forms,
        'rule': ('every parameter tree (scalars incl. edge floats/strings, 4 enum classes, list/dict nesting, nested tasks from two '
                 f'modules) up to the tier bound x 7 outer task types; tier={tier}; distinct_nontrivial = distinct typed canonical forms; '
                 'each item: rebuild, alt spelling, pickle x2, serialize->deserialize, real save -> load_task, LocalStorage.exists, fresh interpreters; task types defined in a main script pickled into fork and spawn workers; plus an integer sweep Foo(p=0..N) for key entropy'),
        'samples': [item_desc(items[i]) + ' -> ' + keys0[i] for i in (0, len(items) // 3, len(items) // 2, len(items) - 1)],
        'distinct_keys': len(by_key),
        'fresh_interpreter_seeds': list(seeds),
        'exhaustive': True,
    }
    return Result('C07', 'exploration', cov, assumptions=[
        'distinctness judged by an independent typed canonical form; dict insertion order and 0.0/-0.0 are not decided by the statement and not asserted',
        'in-process PYTHONHASHSEED=0; other seeds in fresh interpreters',
    ], violations=viols)


def replay(payload) -> int:
    print(json.dumps(payload, indent=1))
    tier = payload.get('tier', 'quick')
    r = run(tier, 0)
    keys = {v.key for v in r.violations}
    print('violation keys now:', sorted(keys))
    return 1 if keys else 0


if __name__ == '__main__':
    if len(sys.argv) >= 3 and sys.argv[1] == '--dump':
        silence_labtech()
        print(json.dumps(key_table(sys.argv[2])))
