"""C10 - one task's failure never disturbs unrelated tasks."""
from .. import families as F
from ..e2prop import replay, run_e2_property  # noqa: F401

ASSUME = [
    'failure kinds: run() raises Boom; worker died (runner reports TaskDiedError)',
    'a task that reads a failed dependency fails with TaskError (harness tasks read every dependency)',
]


def run(tier: str, seed: int):
    if tier == 'quick':
        cfgs = (list(F.fam_faults(1, 4, max_faults=1, reqs='subsets')) + list(F.fam_faults(2, 3, max_faults=2, reqs='subsets', pre=True))
                + list(F.fam_faults(2, 3, max_faults=2, reqs='sinks', types='TB')) + list(F.fam_faults(2, 3, max_faults=2, reqs='sinks', types='TC'))
                # a task that raises a BaseException which is not an Exception (sys.exit() inside run())
                + list(F.fam_faults(1, 3, max_faults=1, reqs='sinks', kinds=('raise',), fault_exc='exit'))
                # the task's own filter_context() raises (user code of the task that runs before run())
                + list(F.fam_faults(1, 3, max_faults=1, reqs='sinks', kinds=('raise',), fault_exc='filter', types='TX')))
        cfgs = list(cfgs) + list(F.fam_mlflow(3)) + list(F.fam_history(2))
        serial = list(F.fam_mlflow(3)) + list(F.fam_history(2)) + list(F.fam_faults(1, 3, max_faults=2, kinds=('raise',))) + list(F.fam_faults(1, 3, max_faults=1, kinds=('raise',), fault_exc='exit', reqs='sinks')) + list(F.fam_faults(1, 3, max_faults=1, kinds=('raise',), fault_exc='filter', types='TX', reqs='sinks'))
        rule = 'all DAG shapes n<=4 x requested subsets x single fault (raise|died) x continue_on_failure; n<=3 fault sets <=2 x pre-cached subsets; every completion order (batch<=2)'
        e3c = list(F.fam_e3(F.fam_faults(1, 3, max_faults=1, reqs='sinks'), workers=(1, 2), die_exit0=(False, True))) + list(F.fam_e3(F.fam_faults(2, 2, max_faults=1, reqs='sinks', kinds=('died',)), workers=(2,), backends=('fork',), die_exit0=(-36, 3), liveness=False)) + list(F.fam_e3(F.fam_faults(2, 2, max_faults=1, reqs='all', pre=True, bust=(True,)), workers=(2,), liveness=False)) + list(F.fam_e3(F.fam_faults(2, 3, max_faults=1, reqs='sinks', kinds=('raise',), fault_exc='exit'), workers=(2,), liveness=False)) + list(F.fam_e3(F.fam_faults(1, 3, max_faults=1, reqs='sinks', kinds=('raise',), fault_exc='filter', types='TX'), workers=(2,), liveness=False)) + list(F.fam_e3(F.fam_faults(2, 3, max_faults=1, reqs='all', cofs=(True,)), workers=(2,), backends=('fork',), monitor=True, liveness=False))
        # more ready work than workers when the failure is reported (continue_on_failure=False must not start it)
        e3c += list(F.fam_e3(F.fam_faults(3, 3, max_faults=1, reqs='all', cofs=(False,), kinds=('raise',)), workers=(1,), backends=('fork',)))
    else:
        cfgs = (list(F.fam_faults(1, 4, max_faults=2, reqs='subsets', batch=3)) + list(F.fam_faults(5, 5, max_faults=1, reqs='sinks'))
                + list(F.fam_faults(2, 4, max_faults=2, reqs='sinks', types='TB')) + list(F.fam_faults(2, 4, max_faults=2, reqs='sinks', types='TC'))
                + list(F.fam_faults(2, 4, max_faults=2, reqs='sinks', pre=True)))
        serial = list(F.fam_faults(1, 4, max_faults=2, kinds=('raise',)))
        rule = 'n<=4 fault sets <=2 batch<=3; n=5 single faults; pre-cache x faults n<=4'
        e3c = list(F.fam_e3(F.fam_faults(1, 3, max_faults=2), workers=(1, 2, None), die_exit0=(False, True, -36, 3))) + list(F.fam_e3(F.fam_faults(2, 3, max_faults=1, reqs='all', pre=True, bust=(True,)), workers=(2,), liveness=False)) + list(F.fam_e3(F.fam_faults(4, 4, max_faults=1, reqs='sinks'), workers=(2,), liveness=False))
    if tier != 'quick':
        x_cf, x_se, x_e3 = F.thorough_extras('C10')
        cfgs, serial, e3c = list(cfgs) + x_cf, list(serial) + x_se, list(e3c) + x_e3
    # the Lab object / the backend object have been through an earlier call that failed
    e3c = list(e3c) + list(F.fam_e3(F.fam_history(2), workers=(2,), liveness=False)) + list(F.fam_e3([c for c in F.fam_faults(2, 2, max_faults=1, reqs='all')], workers=(1, 2), liveness=False, prelude=True))
    return run_e2_property('C10', tier, seed, cfgs, serial_configs=serial, e3_configs=e3c, hash_slices=([('faults3', 1)] if tier == 'quick' else [('faults3', 1), ('faults3', 2), ('faults4', 1)]), real_cases=list(F.fam_real(F.real_bases('faults'), workers=(1, 2))), rule=rule, assumptions=ASSUME)
