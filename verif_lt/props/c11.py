"""C11 - run_tasks always terminates (coordinator part: no spin, bounded waits)."""
from .. import families as F
from ..e2prop import replay, run_e2_property  # noqa: F401

ASSUME = [
    'logical termination: wait() with nothing in flight while the loop continues = spin; horizon 4n+8 waits',
    'wall-clock boundedness is sampled only by the real-backend runs',
]


def run(tier: str, seed: int):
    if tier == 'quick':
        cfgs = (list(F.fam_faults(1, 4, max_faults=1, reqs='sinks')) + list(F.fam_limits(1, 3, batch=2, faults=True, stutter=True))
                + list(F.fam_shapes(1, 4, batch=2)) + list(F.fam_variants(2)) + list(F.fam_inherit(3, faults=True)))
        cfgs = list(cfgs) + list(F.fam_mlflow(3))
        serial = list(F.fam_mlflow(2)) + list(F.fam_inherit(2, faults=True)) + list(F.fam_faults(1, 3, max_faults=2, kinds=('raise',))) + list(F.fam_limits(1, 3, batch=1)) + list(F.fam_variants(2))
        rule = 'n<=4 shapes x faults (raise|died) x continue_on_failure; type limits incl. max_parallel=1 with empty polls; pre-cached subsets'
        e3c = list(F.fam_e3(list(F.fam_faults(1, 3, max_faults=1, reqs='sinks')) + list(F.fam_limits(1, 3, tnames=('TA', 'TB'), faults=True)), workers=(1, 2), die_exit0=(False, True)))
        # default displays (progress bars + task monitor) switched on
        e3c += list(F.fam_e3(F.fam_faults(2, 3, max_faults=1, reqs='all'), workers=(1, 2), backends=('fork',), monitor=True, liveness=False))
        # a single-CPU host with the default worker count; worker processes that never exit after their result;
        # a task whose own filter_context() fails (spawn: no process is ever started for it)
        e3c += list(F.fam_e3(F.fam_shapes(1, 3, pre=False), workers=(None,), cpu_count=1, liveness=False))
        e3c += list(F.fam_e3(F.fam_limits(2, 3, tnames=('TA',)), workers=(1, 2), backends=('fork',), liveness=False, linger=True))
        e3c += list(F.fam_e3(F.fam_faults(1, 3, max_faults=1, reqs='sinks', kinds=('raise',), fault_exc='filter', types='TX', cofs=(True,)), workers=(1, 2), liveness=False))
        # bounded Manager queues scaled down to one slot (a run that outgrows a bounded queue nobody drains), displays off and on
        e3c += list(F.fam_e3(F.fam_shapes(2, 3, pre=False), workers=(1, 2), backends=('fork',), liveness=False, queue_scale=1))
        e3c += list(F.fam_e3(F.fam_limits(2, 2, tnames=('TA',)), workers=(2,), backends=('fork',), liveness=False, queue_scale=1, monitor=True))
    else:
        cfgs = (list(F.fam_faults(1, 4, max_faults=2, reqs='subsets', batch=3)) + list(F.fam_faults(5, 5, max_faults=1, reqs='sinks'))
                + list(F.fam_limits(1, 3, batch=3, faults=True, stutter=True, tnames=('TA', 'TB', 'TC', 'TD'))) + list(F.fam_limits(4, 4, batch=3, faults=True, tnames=('TA', 'TB', 'TC', 'TD'))) + list(F.fam_shapes(1, 4, batch=2)) + list(F.fam_shapes(5, 5, batch=2, pre=False)))
        serial = list(F.fam_faults(1, 4, max_faults=2, kinds=('raise',))) + list(F.fam_limits(1, 4, batch=1))
        rule = 'n<=5 (n=5: cold cache); fault sets <=2; limits {None,1,2,3}; empty polls up to n=3'
        e3c = list(F.fam_e3(F.fam_faults(2, 3, max_faults=1, reqs='all'), workers=(1, 2), monitor=True, liveness=False))
        e3c += list(F.fam_e3(list(F.fam_faults(1, 3, max_faults=2)) + list(F.fam_limits(1, 3, tnames=('TA', 'TB', 'TC'), faults=True)), workers=(1, 2, None), die_exit0=(False, True))) + list(F.fam_e3(F.fam_faults(4, 4, max_faults=1, reqs='sinks'), workers=(1, 2), liveness=False))
        e3c += list(F.fam_e3(F.fam_shapes(1, 4, pre=False), workers=(None,), cpu_count=1, liveness=False)) + list(F.fam_e3(F.fam_limits(2, 3, tnames=('TA', 'TB')), workers=(1, 2), linger=True))
        e3c += list(F.fam_e3(F.fam_faults(1, 3, max_faults=2, kinds=('raise',), fault_exc='filter', types='TX'), workers=(1, 2), liveness=False))
        e3c += list(F.fam_e3(F.fam_shapes(2, 3, pre=False), workers=(1, 2), liveness=False, queue_scale=1)) + list(F.fam_e3(F.fam_shapes(2, 3, pre=False), workers=(1, 2), liveness=False, queue_scale=2, monitor=True))
    if tier != 'quick':
        x_cf, x_se, x_e3 = F.thorough_extras('C11')
        cfgs, serial, e3c = list(cfgs) + x_cf, list(serial) + x_se, list(e3c) + x_e3
    # the backend object has been through an earlier call that a failure aborted; workers killed by a signal without a name
    e3c = list(e3c) + list(F.fam_e3([c for c in F.fam_faults(2, 2, max_faults=1, reqs='all')], workers=(1, 2), liveness=False, prelude=True)) + list(F.fam_e3(F.fam_faults(1, 2, max_faults=1, reqs='sinks', kinds=('died',)), workers=(1, 2), die_exit0=(-36,), liveness=False))
    # the Lab object has been through a call that a failure aborted while limited-type tasks were in flight
    cfgs = list(cfgs) + list(F.fam_history_abort(2))
    serial = list(serial) + list(F.fam_history_abort(2))
    e3c = list(e3c) + list(F.fam_e3([c for c in F.fam_history_abort(2) if c.spec.n <= 2], workers=(3,), cpu_count=3, backends=('fork',), liveness=False))
    return run_e2_property('C11', tier, seed, cfgs, serial_configs=serial, e3_configs=e3c, real_cases=list(F.fam_real(F.real_bases('faults') + F.real_bases('limits'), workers=(1, 2))), rule=rule, assumptions=ASSUME)
