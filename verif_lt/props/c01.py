"""C01 - run_tasks returns exactly each requested task's own computed result."""
from .. import families as F
from ..e2prop import replay, run_e2_property  # noqa: F401

ASSUME = [
    'SchedRunner implements the documented Runner contract; bound to the real runners by spy-trace replay',
    'task bodies execute at completion time (latest legal placement)',
    'bounds: see rule; hash order varied only through int labels (PYTHONHASHSEED-independent)',
]


def run(tier: str, seed: int):
    if tier == 'quick':
        cfgs = list(F.fam_shapes(1, 4, batch=2)) + list(F.fam_variants(3, batch=2)) + list(F.fam_inherit(3))
        serial = list(F.fam_shapes(1, 3, batch=1)) + list(F.fam_variants(2)) + list(F.fam_post_init(2)) + list(F.fam_inherit(2))
        rule = ('all DAG shapes n<=4 x every requested subset x every pre-cached subset of its closure, batch<=2, '
                'every completion order; n<=3 x placements x duplication x type assignments x request '
                'orders/duplicates; real SerialRunner slice n<=3')
        e3c = (list(F.fam_e3(F.fam_shapes(1, 3), workers=(1, 2), liveness=False)) + list(F.fam_e3(F.fam_shapes(3, 3, pre=False), workers=(None,)))
               + list(F.fam_e3(F.fam_variants(2), workers=(2,), liveness=False)) + list(F.fam_e3(list(F.fam_post_init(2)) + list(F.fam_inherit(2)), workers=(2,), liveness=False))
               + list(F.fam_e3([c for c in F.fam_shapes(2, 2, pre=False) if len(c.requested) == c.spec.n], workers=(1, 2), liveness=False, prelude=True))     # an earlier call through the same backend object was aborted by a failure
               # default displays on (progress bars, task monitor with a display smaller than the number of workers)
               + list(F.fam_e3(F.fam_shapes(2, 3, pre=False), workers=(2,), backends=('fork',), liveness=False, monitor=True)))
    else:
        cfgs = (list(F.fam_shapes(1, 4, batch=2)) + list(F.fam_shapes(5, 5, batch=2, pre=False)) + list(F.fam_shapes(1, 4, batch=3, bust=(False, True)))
                + list(F.fam_variants(3, batch=3)) + list(F.fam_variants(2, batch=2, cross=True)))
        serial = list(F.fam_shapes(1, 4, batch=1)) + list(F.fam_variants(3))
        rule = ('all DAG shapes n<=4 with pre-cached subsets and n=5 cold (batch<=2), n<=4 (batch<=3, bust_cache) x requested subsets x pre-cached '
                'subsets; n<=3 variants batch<=3; n<=2 full cross product of placement x dup x types x requests x pre-cache')
        e3c = (list(F.fam_e3(F.fam_shapes(1, 3), workers=(1, 2, None))) + list(F.fam_e3(F.fam_shapes(4, 4, pre=False), workers=(2, 3), cpu_count=3, liveness=False))
               + list(F.fam_e3(F.fam_variants(3), workers=(2,), liveness=False)) + list(F.fam_e3(F.fam_post_init(3), workers=(1, 2), liveness=False)))
    if tier != 'quick':
        x_cf, x_se, x_e3 = F.thorough_extras('C01')
        cfgs, serial, e3c = list(cfgs) + x_cf, list(serial) + x_se, list(e3c) + x_e3
    # tasks whose result is None
    cfgs = list(cfgs) + list(F.fam_none(3))
    serial = list(serial) + list(F.fam_none(2))
    e3c = list(e3c) + list(F.fam_e3(F.fam_none(2), workers=(2,), liveness=False))
    return run_e2_property('C01', tier, seed, cfgs, serial_configs=serial, e3_configs=e3c, hash_slices=([('shapes3', 1), ('shapes3', 2)] if tier == 'quick' else [('shapes3', 1), ('shapes3', 2), ('shapes3', 3), ('shapes4', 1), ('shapes4', 2)]), real_cases=list(F.fam_real(F.real_bases('plain'), workers=(1, 2))), rule=rule, assumptions=ASSUME)
