"""C14 - one Ctrl-C drains the run gracefully; a second one stops it at once.

E6 line-point interrupts layered on E1: KeyboardInterrupt is raised (sys.monitoring LINE
callback = a signal delivered just before that line) at the k-th labtech line executed by
the calling thread during run_tasks - every k - on the real SerialRunner and on the real
fork/spawn ProcessRunner over the virtual OS (which makes the process backends
deterministic, so their line points are enumerated, not sampled), for every schedule within
the deviation bound.  Double interrupts: a second KeyboardInterrupt at every later line
point, for one representative first point per distinct source line.
"""
from __future__ import annotations

import json
import linecache
import os

import labtech

from .. import e2, e3
from .. import universe as U
from ..common import HarnessError, Result, Violation, pmap, rotate, silence_labtech
from ..explore import Chooser, explore
from ..faults import LineInjector, SignalInjector
from ..spec import mk_spec
from ..spy import run_once_serial

LT_DIR = os.path.dirname(os.path.abspath(labtech.__file__)) + os.sep
THR_CAP = 60000     # executions per (harness, interrupt position) of the threaded slice


def want(code):
    return code.co_filename.startswith(LT_DIR)


def site_key(site):
    """(function qualified name, stripped source text) - stable under unrelated edits that shift lines."""
    fn, lineno, qual = site[0], site[1], site[2]
    kind = site[4] if len(site) > 4 else None
    if fn == '<os>':
        return f'<os-call>:{qual}'
    text = linecache.getline(fn, lineno).strip()
    return f'{os.path.relpath(fn, LT_DIR)}:{qual}:{text}' + (f' [{kind}]' if kind else '')


class Interrupts:
    """Context-manager factory handed to the harness: installs the injector around run_tasks."""

    def __init__(self, k1, k2=None, signal=False):
        self.k1, self.k2 = k1, k2
        self.signal = signal      # interrupt instants = the interpreter's real signal-check points instead of line boundaries
        self.inj = None
        self.world = None
        self.at_first = None     # ground truth at the first interrupt
        self.at_second = None
        self.log_mark = None

    def __call__(self, world_or_backend):
        self.world = world_or_backend if hasattr(world_or_backend, 'children') else None
        self.backend = world_or_backend
        w = self.world

        def gate():
            ok = w is None or (w.current_child is None and w.in_helper_thread == 0)
            return ok
        self.handler_entered = False
        self.coalesced = False

        def fire():
            n = len(self.inj.fired)   # fired is appended before exc_factory is called
            if n == 2:
                # did the first interrupt reach the coordinator (any line of TaskCoordinator.run
                # executed since)?  If not, Python delivers a single exception to the handler.
                since = self.inj.trail[self.first_pos:]
                self.coalesced = not any(q == 'TaskCoordinator.run' for q in since)
            else:
                self.first_pos = len(self.inj.trail)
            if w is not None:
                w.interrupted += 1
                executing = [c for c in w.executing()]
                # Ctrl-C goes to the whole foreground process group: a worker that has not
                # (yet) set SIGINT to ignored is killed by it
                for c in executing:
                    if not c.sigint_ignored:
                        c.state = 'killed'
                        c.pc = len(c.script)
                        c.got_sigint = True
                snap = [(c.idx, c.task_key) for c in executing]
                w.record('interrupt', n, snap)
                if n == 1:
                    self.at_first = snap
                else:
                    self.at_second = snap
                    w.frozen = True
            else:
                if n == 1:
                    self.at_first = []
                else:
                    self.at_second = []
            U.WORLD.rec('interrupt', n)
            if hasattr(self.backend, 'events'):
                self.backend.events.append(('interrupt', n))
            return KeyboardInterrupt()
        cls = SignalInjector if self.signal else LineInjector
        self.inj = cls(want, at=self.k1, second_at=self.k2, exc_factory=fire, gate=gate,
                       sched=getattr(w, 'sched', None), switch_files=(os.path.join('runners', 'process.py'),))
        if self.signal and w is not None:
            w.signal_hook = self.inj.virtual_point
        if self.k1 is None:
            self.inj.record_sites = True
        return self.inj


def judge(kind, cfg, obs, intr: Interrupts):
    """Returns list of (key, msg).  kind: 'serial' | 'fork' | 'spawn'."""
    out = []
    fired = intr.inj.fired
    if not fired:
        return None          # the run ended before event k: nothing was injected
    s1 = site_key(fired[0])
    s2 = site_key(fired[1]) if len(fired) > 1 else None
    where = f'interrupt at {s1}' + (f' and again at {s2}' if s2 else '')

    def add(k, msg, second=False):
        key = f'{k}@{s1}' + (f'&{s2}' if (s2 and second) else '')
        out.append((key, f'[{kind}] {where}: {msg}'))
    two = len(fired) > 1
    if two and intr.coalesced:
        # one generic class: Python hands the coordinator a single exception
        s1, s2 = 'any', 'before-first-reached-the-coordinator'
        where = 'second interrupt delivered while the first was still propagating to the coordinator'

        def add(k, msg, second=False):   # noqa: F811
            out.append((f'{k}@second-interrupt-coalesced-with-first', f'[{kind}] {where} ({site_key(fired[0])} then {site_key(fired[1])}): {msg}'))
    oc = obs.outcome
    if oc[0] == 'return':
        add('returned-normally', f'run_tasks returned {len(oc[1])} results instead of raising KeyboardInterrupt', two)
    elif oc[0] == 'spin':
        add('hang', 'run_tasks keeps polling forever after the interrupt', two)
    elif not isinstance(oc[1], KeyboardInterrupt):
        add(f'wrong-exception:{type(oc[1]).__name__}', f'run_tasks raised {type(oc[1]).__name__}: {str(oc[1])[:150]} instead of KeyboardInterrupt', two)
    # nothing started after the interrupt
    if kind.startswith('serial'):
        seen = False
        for ev in obs.world:
            if ev[0] == 'interrupt':
                seen = True
            elif seen and ev[0] == 'start':
                add('started-after-interrupt', f'task {ev[1]} started after the interrupt', two)
                break
    else:
        w = obs.vworld
        seen = False
        for ev in w.events:
            if ev[0] == 'interrupt':
                seen = True
            elif seen and ev[0] == 'start':
                add('started-after-interrupt', f'process for {ev[2]} started after the interrupt', two)
                break
        by_idx = {c.idx: c for c in w.children}
        if not two:
            for idx, tk in intr.at_first or []:
                c = by_idx[idx]
                if c.got_sigint:
                    add('worker-killed-by-sigint', f'worker for {tk} had not ignored SIGINT and was killed by the Ctrl-C')
                elif c.state == 'terminated' or (c.state == 'killed' and not getattr(c, 'doomed', False) and not getattr(c, 'self_killed', False)):
                    # (a worker that dies by its own hand - the harness kills it - was not terminated by labtech)
                    add('executing-task-terminated', f'worker for {tk} was executing at the interrupt and was terminated')
                else:
                    i = e2.node_of_key(cfg.spec).get(tk)
                    if i is not None and i in obs.ref.value and U.CACHEABLE[tk[0]] and not e2._cached_ok(obs, i):
                        add('executing-task-not-cached', f'{tk} was executing at the interrupt but its result is not in the cache afterwards')
        else:
            for idx, tk in intr.at_second or []:
                # judged on what run_tasks left behind (afterwards the harness lets surviving workers finish)
                st, committed = w.state_when_left.get(idx, (by_idx[idx].state, by_idx[idx].result_committed))
                if intr.coalesced and oc[0] == 'spin':
                    continue        # the same thing seen twice: the drain that never ends *is* the waiting for them
                if st not in ('terminated', 'killed') and not committed:
                    add('not-terminated-on-second-interrupt', f'worker for {tk} was still executing at the second interrupt and was never terminated', True)
    # cache consistency: whatever is reported as cached must load correctly - asked of a fresh Lab and of
    # the very Lab object that was interrupted (it may remember things about entries it saw before the run)
    labs = [('a fresh Lab', labtech.Lab(storage=obs.storage, runner_backend='serial', notebook=False))]
    if getattr(obs, 'lab', None) is not None:
        labs.append(('the interrupted Lab object', obs.lab))
    for who, lab in labs:
        for i in range(cfg.spec.n):
            t = obs.built.fresh(i)
            if not U.CACHEABLE[cfg.spec.types[i]]:
                continue
            try:
                if lab.is_cached(t):
                    r = t._lt.cache.load_result_with_meta(obs.storage, t)
                    ok_vals = [obs.ref.value.get(i)]
                    if i in cfg.precached:
                        from ..spec import stored_value
                        ok_vals.append(stored_value(cfg.spec, i, None, 0))     # the entry that was being overwritten
                    if i in obs.ref.value and r.value not in ok_vals:
                        add('cache-inconsistent', f'node {i} is cached with a wrong value after the interrupt (asked {who})', two)
            except BaseException as e:  # noqa
                add('cache-inconsistent', f'node {i} is reported as cached by {who} but cannot be loaded ({type(e).__name__})', two)
    return out


def run_case(args):
    """args = (kind, cfg, k1, k2, max_dev).  Explores all schedules (within the deviation bound)
    with the interrupt(s) at the given line-event numbers."""
    kind, cfg, k1, k2, max_dev = args
    silence_labtech()
    res = []
    seen = set()
    n = 0
    fired_n = 0
    base = cfg.base if not kind.startswith('serial') else cfg

    def handle(obs, intr, choices):
        nonlocal n, fired_n
        n += 1
        j = judge(kind, base, obs, intr)
        if j is None:
            return
        fired_n += 1
        for key, msg in j:
            if key in seen:
                continue
            seen.add(key)
            res.append((key, msg + f' | cfg={cfg.brief()} k={k1},{k2} choices={choices}',
                        {'kind': kind, 'cfg': cfg.to_json(), 'k1': k1, 'k2': k2, 'choices': choices}))
    sig = kind.endswith('+sig')
    bkind = kind[:-4] if sig else kind
    if bkind in ('serial', 'serial+displays'):
        intr = Interrupts(k1, k2, signal=sig)
        obs = run_once_serial(cfg, around_run=intr, displays=(bkind != 'serial'))
        handle(obs, intr, [])
    else:
        thr = bkind.endswith('+thr')

        def run(ch):
            intr = Interrupts(k1, k2, signal=sig)
            obs = e3.run_once_e3(cfg, ch, around_run=intr, threaded=thr)
            return obs, intr
        st = explore(run, lambda ch, r: handle(r[0], r[1], ch.choices), max_deviations=max_dev,
                     max_executions=(THR_CAP if thr else 400))
        if thr:
            return n, fired_n, res, {'capped': bool(st.capped), 'states': len(st.states), 'transitions': len(st.transitions)}
    return n, fired_n, res


def count_events(kind, cfg, max_dev):
    """Baseline: line-event counts (and sites) without injection, maximum over schedules."""
    silence_labtech()
    best = (0, [])
    sig = kind.endswith('+sig')
    bkind = kind[:-4] if sig else kind
    if bkind in ('serial', 'serial+displays'):
        intr = Interrupts(None, signal=sig)
        run_once_serial(cfg, around_run=intr, displays=(bkind != 'serial'))
        return intr.inj.count, intr.inj.sites

    if bkind.endswith('+thr'):
        # threaded slice: default schedule; the interesting positions are the main-thread events
        # at which a helper thread is alive (= the consumer_thread.join() lines)
        intr = Interrupts(None)
        e3.run_once_e3(cfg, Chooser([]), around_run=intr, threaded=True)
        return intr.inj.count, intr.inj.sites, list(intr.inj.helper_live_at)

    def run(ch):
        intr = Interrupts(None, signal=sig)
        e3.run_once_e3(cfg, ch, around_run=intr)
        return intr

    def on(ch, intr):
        nonlocal best
        if intr.inj.count > best[0]:
            best = (intr.inj.count, intr.inj.sites)
    explore(run, on, max_deviations=max_dev, max_executions=400)
    return best


def live_after(args):
    """threaded slice: main-thread events after a first interrupt at k1 at which a helper thread is alive"""
    kind, cfg, k1 = args
    silence_labtech()
    intr = Interrupts(k1)
    e3.run_once_e3(cfg, Chooser([]), around_run=intr, threaded=True)
    return args, [k for k in intr.inj.helper_live_at if k > k1], intr.inj.count


def _count(a):
    return a, count_events(*a)


def harnesses(tier):
    chain = mk_spec(((), (0,), ()), types=('TA', 'TA', 'TA'))
    three = mk_spec(((), (), (0, 1)), types=('TA', 'TA', 'TA'))
    req3 = tuple((i, False) for i in range(3))
    out = [('serial', e2.Config(spec=chain, requested=req3), 0),
           ('serial', e2.Config(spec=three, requested=((2, False),), precached=(0,)), 0),
           # re-execution over existing entries: an interrupt in the middle of an overwrite
           ('serial', e2.Config(spec=chain, requested=req3, precached=(0, 1, 2), bust_cache=True), 0),
           # default displays on: progress bars and the task monitor (psutil queries) run in the calling thread too
           ('serial+displays', e2.Config(spec=mk_spec(((), ()), types=('TA', 'TA')), requested=((0, False), (1, False))), 0)]
    # a task that fails (continue_on_failure=True) while the interrupt is being handled
    out.append(('serial', e2.Config(spec=chain, requested=req3, faults=(0,)), 0))
    dev = 1 if tier == 'quick' else 2
    out.append(('fork', e3.E3Config(base=e2.Config(spec=chain, requested=req3, faults=(2,)), backend='fork', max_workers=2, liveness_choice=False), dev))
    for be in ('fork', 'spawn'):
        for mw in (1, 2):
            out.append((be, e3.E3Config(base=e2.Config(spec=chain, requested=req3), backend=be, max_workers=mw, liveness_choice=False), dev))
        out.append((be, e3.E3Config(base=e2.Config(spec=three, requested=((2, False),), precached=(0,)), backend=be, max_workers=2,
                                    liveness_choice=False), dev))
        out.append((be, e3.E3Config(base=e2.Config(spec=chain, requested=req3, precached=(0, 1, 2), bust_cache=True), backend=be, max_workers=2,
                                    liveness_choice=False), dev))
    # a worker that is killed outright while the interrupt is being handled
    out.append(('fork', e3.E3Config(base=e2.Config(spec=mk_spec(((), ()), types=('TA', 'TA')), requested=((0, False), (1, False)), died=(1,)), backend='fork', max_workers=2), dev))
    # workers that do not die promptly when terminated (a task with its own SIGTERM handler)
    out.append(('fork', e3.E3Config(base=e2.Config(spec=mk_spec(((), ()), types=('TA', 'TA')), requested=((0, False), (1, False))), backend='fork', max_workers=2,
                                    liveness_choice=False, term_slow=True), 0))
    # signal-faithful slice: interrupt instants are the interpreter's real signal-check points (function
    # entry, return of a C call, loop back-edge - also *inside* a statement) plus instants inside the
    # OS-level calls of the parent (Process.start after the worker exists, Queue.get, is_alive, terminate, join)
    out.append(('serial+sig', e2.Config(spec=chain, requested=req3), 0))
    for be in ('fork', 'spawn'):
        out.append((be + '+sig', e3.E3Config(base=e2.Config(spec=chain, requested=req3), backend=be, max_workers=2, liveness_choice=False), dev))
    out.append(('fork+sig', e3.E3Config(base=e2.Config(spec=three, requested=((2, False),), precached=(0,)), backend='fork', max_workers=1, liveness_choice=False), dev))
    # threaded slice: the result-consumer helper thread is a real thread under a baton scheduler, so an
    # interrupt that lands on consumer_thread.join() leaves a *stale* consumer that keeps running
    # concurrently with the rest of the shutdown; worker liveness is a choice here (a result can sit in
    # the queue while its worker is already seen dead)
    tdev = 2 if tier == 'quick' else 3
    two = mk_spec(((), ()), types=('TA', 'TA'))
    out.append(('fork+thr', e3.E3Config(base=e2.Config(spec=two, requested=((0, False), (1, False))), backend='fork', max_workers=2), tdev))
    if tier != 'quick':
        out.append(('fork+thr', e3.E3Config(base=e2.Config(spec=chain, requested=req3), backend='fork', max_workers=2), tdev))
        out.append(('spawn+thr', e3.E3Config(base=e2.Config(spec=two, requested=((0, False), (1, False))), backend='spawn', max_workers=1), tdev))
    return out


def run(tier: str, seed: int) -> Result:
    silence_labtech()
    hs = harnesses(tier)
    only = os.environ.get('VERIF_C14_ONLY')      # debugging aid: restrict to harness kinds containing this text
    if only:
        hs = [h for h in hs if only in h[0] and (os.environ.get('VERIF_C14_DIED') is None or bool(h[1].base.died) == (os.environ['VERIF_C14_DIED'] == '1'))]
    counts = dict()
    for a, c in pmap(_count, [(k, cfg, d) for k, cfg, d in hs]):
        counts[(a[0], repr(a[1]))] = c
    work = []
    reps_total = 0
    thr_first = []
    thr_positions = {}
    for kind, cfg, dev in hs:
        c = counts[(kind, repr(cfg))]
        K, sites = c[0], c[1]
        thr = kind.endswith('+thr')
        seen_sites = {}
        for idx, s in enumerate(sites, start=1):
            seen_sites.setdefault((s[0], s[1]) + tuple(s[3:4]), idx)
        reps = sorted(seen_sites.values())
        if thr:
            # singles: only positions at which a helper thread is alive differ from the synchronous slice
            J = c[2]
            thr_positions[f'{kind}:{cfg.brief()}'] = list(J)
            for k in J:
                work.append((kind, cfg, k, None, dev))
                # doubles with a stale consumer from the first interrupt: second at every later event
                for k2 in range(k + 1, min(K + 400, k + (60 if tier == 'quick' else 250)) + 1):
                    work.append((kind, cfg, k, k2, 1))
            # doubles whose *second* interrupt lands on a join: first at a representative line
            rr = reps[:: max(1, len(reps) // (12 if tier == 'quick' else 60))]
            thr_first.extend((kind, cfg, k1) for k1 in rr if k1 not in J)
            continue
        for k in range(1, K + 1):
            work.append((kind, cfg, k, None, dev))
        # doubles: first point = one representative per distinct source line, second = every later point
        reps_total += len(reps)
        if tier == 'quick':
            sampled = reps[:: max(1, len(reps) // 40)]
            if kind in ('fork', 'fork+sig') and cfg.max_workers == 2 and not cfg.base.precached:
                # one harness keeps every distinct line of the process runner / executor as first point:
                # that is where the bookkeeping of running workers lives
                crit = [idx for key, idx in seen_sites.items() if key[0].endswith(os.path.join('runners', 'process.py')) or key[0] == '<os>']
                sampled = sorted(set(sampled) | set(crit))
            reps = sampled
        for k1 in reps:
            horizon = K + 400
            for k2 in range(k1 + 1, min(horizon, k1 + (120 if tier == 'quick' else 400)) + 1):
                work.append((kind, cfg, k1, k2, 0))
    for (kind, cfg, k1), later, _ in pmap(live_after, thr_first):
        for k2 in later:
            work.append((kind, cfg, k1, k2, 1 if tier == 'quick' else 2))
    work = rotate(work, seed)
    viols = []
    n_exec = n_fired = 0
    thr_exec = thr_cases = thr_capped = thr_states = thr_trans = 0
    for r in pmap(run_case, work, chunksize=4):
        n, f, res = r[0], r[1], r[2]
        n_exec += n
        n_fired += f
        if len(r) > 3:
            thr_exec += n
            thr_cases += 1
            thr_capped += 1 if r[3]['capped'] else 0
            thr_states += r[3]['states']
            thr_trans += r[3]['transitions']
        for key, msg, rp in res:
            viols.append(Violation('C14', key, msg, rp, size=(rp['k1'] or 0) + (1000 if rp['k2'] else 0)))
    # real SIGINT to the whole process group of real fork / spawn runs at a controlled rest point
    from .. import e4b
    scs = e4b.sigint_cases(tier) if not only else []
    n_real = 0
    for r in pmap(e4b.sigint_case, scs):
        n_real += 1
        for p, key, msg in r['viols']:
            viols.append(Violation('C14', key, msg, {'real_sigint': True, 'clause': key}, size=5000))
    cov = {
        'real_sigint_runs': n_real,
        'evaluations': n_exec + n_real,
        'distinct_nontrivial': n_fired,
        'rule': ('harnesses: 3-task DAGs (chain + independent; join with one node pre-cached) on the real SerialRunner and on the real fork/spawn ProcessRunner (max_workers 1,2) over the '
                 'virtual OS; single interrupt at every labtech line event k of the calling thread x every schedule within the deviation bound; double interrupts: first at one '
                 'representative event per distinct source line (quick: every ~n/40th), second at each of the following 120 (quick) / 400 events; distinct_nontrivial = executions in which the '
                 'interrupt(s) actually fired; threaded slice: the result-consumer helper runs as a real thread under a baton scheduler (switch points: every labtech line of a helper thread, '
                 'every runners/process.py line of the calling thread while a helper is alive, join), interrupts at every position where a helper is alive (first or second interrupt), all '
                 'thread/OS schedules within the deviation bound; signal-faithful slice (kinds +sig): the same enumeration with the interrupt instants CPython really has - function entry, return of a C call (also in the middle of a statement), loop back-edge - plus instants inside the OS-level calls of the parent (Process.start with the worker already running, Queue.get, is_alive, terminate, join); plus real SIGINT (single and double) sent to the process group of real fork/spawn runs while workers are blocked inside run()'),
        'samples': [{'harness': [k, cfg.brief()], 'line_events': counts[(k, repr(cfg))][0]} for k, cfg, d in hs[:4]]
                   + [{'threaded_harness': k, 'interrupt_positions_with_live_helper': v} for k, v in list(thr_positions.items())[:2]],
        'line_events_per_harness': {f'{k}:{i}': counts[(k, repr(cfg))][0] for i, (k, cfg, d) in enumerate(hs)},
        'distinct_source_lines_as_first_interrupt': reps_total,
        'threaded_slice': {'interrupt_cases': thr_cases, 'executions': thr_exec, 'cases_capped_at_%d_executions' % THR_CAP: thr_capped,
                           'states': thr_states, 'transitions': thr_trans,
                           'deviation_bound': {k + ':' + str(i): d for i, (k, cfg, d) in enumerate(hs) if k.endswith('+thr')}},
        'exhaustive': tier != 'quick' and thr_capped == 0,
    }
    return Result('C14', 'fault_enumeration', cov, assumptions=[
        'interrupts at line, not bytecode, granularity, only in labtech frames of the calling thread, never inside (virtual) workers or the result-consumer helper thread',
        'a worker that has not set SIGINT to ignored when the interrupt is delivered receives it too (process group)',
        'after a second interrupt executing workers make no further progress unless terminated',
        'threaded slice: thread switches at line granularity; a blocking queue get with a timeout may time out at any moment (untimed model)',
    ], violations=viols)


def replay(payload) -> int:
    silence_labtech()
    if payload.get('real_sigint'):
        from .. import e4b
        found = []
        for c in e4b.sigint_cases('quick'):
            found += [v for v in e4b.sigint_case(c)['viols'] if v[1] == payload['clause']]
        for v in found:
            print(v)
        return 1 if found else 0
    kind = payload['kind']
    cfg = e2.Config.from_json(payload['cfg']) if kind.startswith('serial') else e3.E3Config.from_json(payload['cfg'])
    sig = kind.endswith('+sig')
    bkind = kind[:-4] if sig else kind
    intr = Interrupts(payload['k1'], payload['k2'], signal=sig)
    if kind.startswith('serial'):
        obs = run_once_serial(cfg, around_run=intr, displays=(bkind != 'serial'))
    else:
        obs = e3.run_once_e3(cfg, Chooser(payload['choices']), around_run=intr, threaded=bkind.endswith('+thr'))
        for ev in obs.vworld.events:
            print('  os:', ev)
    for ev in obs.events:
        print('  ', ev)
    print('fired:', intr.inj.fired)
    print('outcome:', obs.outcome[0], repr(obs.outcome[1])[:200])
    j = judge(kind, cfg.base if not kind.startswith('serial') else cfg, obs, intr) or []
    for k, m in j:
        print(' ', k, m)
    return 1 if j else 0
