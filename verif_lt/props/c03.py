"""C03 - each distinct task runs at most once, and only if its result is needed."""
from .. import families as F
from ..e2prop import replay, run_e2_property  # noqa: F401

ASSUME = [
    'executions/loads are counted at the runner (run_or_load_task calls) for every equality class (type,label)',
    'needed closure computed by the cache-aware reference from the construction spec',
]


def run(tier: str, seed: int):
    if tier == 'quick':
        cfgs = list(F.fam_shapes(1, 4, batch=2)) + list(F.fam_variants(3, batch=2)) + list(F.fam_inherit(3))
        serial = list(F.fam_shapes(1, 3, batch=1)) + list(F.fam_variants(2)) + list(F.fam_inherit(2))
        rule = ('all DAG shapes n<=4 x requested subsets x pre-cached subsets (batch<=2); n<=3 x placements x '
                'duplication (shared vs fresh equal instances, same task requested twice / nested) x types x request variants')
        e3c = (list(F.fam_e3(F.fam_shapes(1, 3), workers=(2,), liveness=False)) + list(F.fam_e3(F.fam_variants(2), workers=(2,), liveness=False))
               # an earlier call through the same backend object was aborted by a failure
               + list(F.fam_e3([c for c in F.fam_shapes(2, 2, pre=False) if len(c.requested) == c.spec.n], workers=(1, 2), liveness=False, prelude=True))
               # a task whose worker dies is not quietly executed a second time
               + list(F.fam_e3(F.fam_faults(1, 3, max_faults=1, reqs='sinks', kinds=('died',), cofs=(True,)), workers=(1, 2), liveness=False)))
    else:
        cfgs = (list(F.fam_shapes(1, 4, batch=2)) + list(F.fam_shapes(5, 5, batch=2, pre=False)) + list(F.fam_shapes(1, 4, batch=3, bust=(False, True)))
                + list(F.fam_variants(3, batch=3)) + list(F.fam_variants(2, cross=True)))
        serial = list(F.fam_shapes(1, 4, batch=1)) + list(F.fam_variants(3))
        rule = 'n<=4 shapes x pre-cached subsets, n=5 cold; n<=4 batch<=3 with bust_cache; n<=2 full cross of placement x dup x types x requests x pre-cache'
        e3c = (list(F.fam_e3(F.fam_shapes(1, 3), workers=(1, 2, None))) + list(F.fam_e3(F.fam_variants(3), workers=(2,), liveness=False))
               + list(F.fam_e3(F.fam_faults(1, 3, max_faults=2, kinds=('died', 'raise'), cofs=(True,)), workers=(1, 2))))
    if tier != 'quick':
        x_cf, x_se, x_e3 = F.thorough_extras('C03')
        cfgs, serial, e3c = list(cfgs) + x_cf, list(serial) + x_se, list(e3c) + x_e3
    # tasks whose result is None
    cfgs = list(cfgs) + list(F.fam_none(3))
    serial = list(serial) + list(F.fam_none(2))
    return run_e2_property('C03', tier, seed, cfgs, serial_configs=serial, e3_configs=e3c, hash_slices=([('shapes3', 1)] if tier == 'quick' else [('shapes3', 1), ('shapes3', 2), ('shapes4', 1)]), real_cases=list(F.fam_real(F.real_bases('plain'), workers=(2,))), rule=rule, assumptions=ASSUME)
