"""Storage providers used by the history / value checks."""
from __future__ import annotations

from pathlib import Path

from fsspec.implementations.local import LocalFileSystem

from labtech.storage import FsspecStorage, LocalStorage, NullStorage  # noqa: F401

from .sched_runner import MemStorage  # noqa: F401


class LocalFsspecStorage(FsspecStorage):
    """The reference implementation quoted at the bottom of labtech/storage.py,
    over fsspec's LocalFileSystem."""

    def __init__(self, storage_dir, **kwargs):
        if isinstance(storage_dir, str):
            storage_dir = Path(storage_dir)
        super().__init__(storage_dir.resolve())

    def fs_constructor(self):
        return LocalFileSystem()
