"""Storage providers used by the history / value checks."""
from __future__ import annotations

from pathlib import Path

from fsspec.implementations.local import LocalFileSystem

from labtech.storage import FsspecStorage, LocalStorage, NullStorage  # noqa: F401

from .sched_runner import MemStorage  # noqa: F401


class LocalFsspecStorage(FsspecStorage):
    """The reference implementation quoted at the bottom of labtech/storage.py,
    over fsspec's LocalFileSystem."""

    def __init__(self, storage_dir, **kwargs):
        if isinstance(storage_dir, str):
            storage_dir = Path(storage_dir)
        super().__init__(storage_dir.resolve())

    def fs_constructor(self):
        return LocalFileSystem()


class MemFsspecStorage(FsspecStorage):
    """FsspecStorage over fsspec's in-memory filesystem (whose ls() - like AbstractFileSystem.ls -
    returns detail dicts unless asked otherwise).  The memory filesystem is one process-wide
    store, so every storage gets its own root."""

    _n = 0

    def __init__(self):
        import os
        MemFsspecStorage._n += 1
        super().__init__(f'/memfs_{os.getpid()}_{MemFsspecStorage._n}')

    def fs_constructor(self):
        from fsspec.implementations.memory import MemoryFileSystem
        return MemoryFileSystem()

    def clone(self) -> 'MemFsspecStorage':
        other = MemFsspecStorage()
        fs = self.fs_constructor()
        src, dst = str(self._storage_path), str(other._storage_path)
        for path in fs.find(src):
            target = dst + path[len(src):]
            fs.mkdirs(target.rsplit('/', 1)[0], exist_ok=True)
            with fs.open(path, 'rb') as a, fs.open(target, 'wb') as b:
                b.write(a.read())
        for d in fs.ls(src, detail=False):
            if fs.isdir(d):
                fs.mkdirs(dst + d[len(src):], exist_ok=True)
        return other

    def destroy(self):
        fs = self.fs_constructor()
        if fs.exists(str(self._storage_path)):
            fs.rm(str(self._storage_path), recursive=True)
