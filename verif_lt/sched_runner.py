"""E2 - SchedRunner: a schedule-controlling Runner (coordinator seam), MemStorage
and a recording cache wrapper.

The runner is written against the documented Runner contract in
labtech/types.py.  Task bodies run through the real run_or_load_task at
completion time (the latest legal placement between submit and completion).
"""
from __future__ import annotations

import io
import itertools
from typing import Any, Iterator, Optional, Sequence

from labtech.exceptions import TaskDiedError
from labtech.runners.base import run_or_load_task
from labtech.types import ResultMeta, Runner, RunnerBackend, Storage, TaskResult

from . import universe as U
from .common import HarnessError
from .explore import Chooser

# ---------------------------------------------------------------------------
# In-memory storage (public Storage extension API)

_MEM_REGISTRY: dict[int, 'MemStorage'] = {}


def _mem_lookup(sid: int) -> 'MemStorage':
    return _MEM_REGISTRY[sid]


class _MemText(io.StringIO):
    def __init__(self, files, name, initial=''):
        super().__init__(initial)
        self._files, self._name = files, name

    def close(self):
        if not self.closed:
            self._files[self._name] = self.getvalue().encode('utf-8')
        super().close()


class _MemBytes(io.BytesIO):
    def __init__(self, files, name, initial=b''):
        super().__init__(initial)
        self._files, self._name = files, name

    def close(self):
        if not self.closed:
            self._files[self._name] = self.getvalue()
        super().close()


class _StageSink:
    """dict-like target of a staged write: closing the handle records the bytes."""

    def __init__(self, stage, sid, key):
        self.stage, self.sid, self.key = stage, sid, key

    def __setitem__(self, filename, data):
        self.stage.append(('write', self.sid, self.key, filename, data))


class MemStorage(Storage):
    """Dict-backed storage with LocalStorage's observable semantics: a key
    exists as soon as a file handle was opened for it."""
    _ids = itertools.count(1)

    def __init__(self):
        self.d: dict[str, dict[str, bytes]] = {}
        self.sid = next(self._ids)
        self.ops: list[tuple] = []
        _MEM_REGISTRY[self.sid] = self

    def __reduce__(self):
        # Survives the pickle round trip of the (virtual) spawn transport as the
        # same object, the way a directory path names the same directory.
        return (_mem_lookup, (self.sid,))

    def release(self):
        _MEM_REGISTRY.pop(self.sid, None)

    def __len__(self):
        # a sized provider: falsy as long as nothing is stored (a Storage is used, never truth-tested)
        return len(self.d)

    def find_keys(self) -> Sequence[str]:
        return sorted(self.d)

    def exists(self, key: str) -> bool:
        return key in self.d

    # When STAGE is a list (a virtual child process is executing, see vmp.py) mutations are
    # recorded there instead of being applied; they are applied when the explorer commits them.
    STAGE = None
    READ_HOOK = None      # E3: called when a stored result is read (lets the virtual OS see loads done by the parent)

    @staticmethod
    def apply_staged(ops):
        for op in ops:
            st = _MEM_REGISTRY.get(op[1])
            if st is None:
                continue
            if op[0] == 'mkdir':
                st.d.setdefault(op[2], {})
            elif op[0] == 'trunc':
                st.d.setdefault(op[2], {})[op[3]] = b''
            elif op[0] == 'write':
                st.d.setdefault(op[2], {})[op[3]] = op[4]
            elif op[0] == 'delete':
                st.d.pop(op[2], None)

    def file_handle(self, key: str, filename: str, *, mode: str = 'r'):
        self.ops.append(('open', key, filename, mode))
        stage = MemStorage.STAGE
        if stage is not None and 'w' in mode:
            stage.append(('mkdir', self.sid, key))
            stage.append(('trunc', self.sid, key, filename))
            sink = _StageSink(stage, self.sid, key)
            return _MemBytes(sink, filename) if 'b' in mode else _MemText(sink, filename)
        if 'r' in mode and '+' not in mode and key not in self.d:
            # an object-store-like provider: nothing was ever stored under this key.  The Storage
            # contract does not name the exception for that, and labtech has no reason to read from a
            # key for which exists() is False
            from labtech.exceptions import StorageError
            raise StorageError(f'MemStorage: no entry under key {key!r}')
        files = self.d.setdefault(key, {}) if stage is None else self.d.get(key, {})
        binary = 'b' in mode
        if 'r' in mode and '+' not in mode:
            if filename not in files:
                raise FileNotFoundError(f'{key}/{filename}')
            if filename != 'metadata.json':
                # a stored result is being read (wherever: coordinator, worker, helper code)
                U.WORLD.rec('result-read', key, U.WORLD.child)
                hook = MemStorage.READ_HOOK
                if hook is not None:
                    hook(key)
            data = files[filename]
            return io.BytesIO(data) if binary else io.StringIO(data.decode('utf-8'))
        if 'w' in mode:
            files[filename] = b''
            return _MemBytes(files, filename) if binary else _MemText(files, filename)
        raise HarnessError(f'MemStorage: unsupported mode {mode}')

    def delete(self, key: str) -> None:
        self.ops.append(('delete', key))
        if MemStorage.STAGE is not None:
            MemStorage.STAGE.append(('delete', self.sid, key))
            return
        self.d.pop(key, None)

    def snapshot(self):
        return {k: dict(v) for k, v in self.d.items()}


# ---------------------------------------------------------------------------

class Spin(BaseException):
    """Raised by SchedRunner to end an execution in which the coordinator keeps
    polling although nothing is in flight (C11)."""


class SchedRunner(Runner):

    def __init__(self, *, context, storage, max_workers, backend: 'SchedBackend'):
        self.context = context
        self.storage = storage
        self.max_workers = max_workers
        self.b = backend
        self.inflight: list[tuple] = []          # (task, name, use_cache)
        self.results_map: dict = {}
        self.ev: list[tuple] = backend.events
        self.completed: dict = {}                # tkey -> 'ok' | 'fail'
        self.metas: dict = {}
        self.waits = 0
        self.empty_waits = 0
        self.stuttered = False
        self.cancelled = False
        self.stopped = False

    # -- helpers
    def _fp(self):
        return (tuple(sorted(self.completed.items())),
                tuple(U.tkey(t) for t, _, _ in self.inflight),
                tuple(sorted(U.tkey(t) for t in self.results_map)))

    def submit_task(self, task, task_name: str, use_cache: bool) -> None:
        k = U.tkey(task)
        present = tuple(sorted(U.tkey(d) for d in U.own_deps(task) if d in self.results_map))
        self.ev.append(('submit', k, bool(use_cache), task_name,
                        tuple(U.tkey(t) for t, _, _ in self.inflight), present))
        self.inflight.append((task, task_name, use_cache))

    def _options(self) -> list[tuple]:
        n = len(self.inflight)
        opts: list[tuple] = [(i,) for i in range(n)]
        for size in range(2, min(self.b.batch, n) + 1):
            opts.extend(itertools.permutations(range(n), size))
        if self.b.stutter and n > 0 and not self.stuttered:
            opts.append(())
        return opts

    def _execute(self, task, name, use_cache):
        k = U.tkey(task)
        if k[1] in self.b.died and not use_cache:
            self.ev.append(('died', k))
            return TaskDiedError()
        try:
            for dep in U.all_dep_instances(task):
                dep._set_results_map(self.results_map)
            res = run_or_load_task(task=task, task_name=name, use_cache=use_cache,
                                   filtered_context=task.filter_context(self.context), storage=self.storage)
        except KeyboardInterrupt:
            raise
        except BaseException as ex:   # noqa
            self.ev.append(('exec_fail', k, bool(use_cache), type(ex).__name__, str(ex)[:120]))
            return ex
        self.ev.append(('exec_ok', k, bool(use_cache)))
        return res

    def wait(self, *, timeout_seconds: Optional[float]) -> Iterator[tuple]:
        self.waits += 1
        self.ev.append(('wait', tuple(U.tkey(t) for t, _, _ in self.inflight),
                        tuple(sorted(U.tkey(t) for t in self.results_map))))
        if not self.inflight:
            self.empty_waits += 1
            if self.empty_waits > 3 and not (self.cancelled or self.stopped):
                self.ev.append(('spin',))
                raise Spin()
            return
        if self.waits > self.b.horizon:
            self.ev.append(('horizon',))
            raise Spin()
        opts = self._options()
        c = self.b.chooser.choose(len(opts), ('wait', len(self.inflight)), fp=self._fp(),
                                  label_of=lambda c: opts[c])
        batch = opts[c]
        if not batch:
            self.stuttered = True
            self.ev.append(('batch', ()))
            return
        self.stuttered = False
        picked = [self.inflight[i] for i in batch]
        self.ev.append(('batch', tuple(U.tkey(t) for t, _, _ in picked)))
        for p in picked:
            self.inflight.remove(p)
        outcomes = [(t, self._execute(t, name, uc)) for t, name, uc in picked]
        for task, res in outcomes:
            k = U.tkey(task)
            if isinstance(res, TaskResult):
                self.results_map[task] = res
                self.completed[k] = 'ok'
                self.metas[k] = res.meta
                self.ev.append(('yield', k, 'ok'))
                yield (task, res.meta)
            else:
                self.completed[k] = 'fail'
                self.ev.append(('yield', k, 'fail'))
                yield (task, res)

    def cancel(self) -> None:
        self.ev.append(('cancel',))
        self.cancelled = True
        self.inflight.clear()     # nothing has started under this runner before completion

    def stop(self) -> None:
        self.ev.append(('stop',))
        self.stopped = True
        self.inflight.clear()

    def close(self) -> None:
        self.ev.append(('close', tuple(sorted(U.tkey(t) for t in self.results_map))))

    def pending_task_count(self) -> int:
        # a coordinator that keeps asking without ever consuming wait() spins just as well
        self.count_calls = getattr(self, 'count_calls', 0) + 1
        if self.count_calls > 50 * self.b.horizon + 1000:
            self.ev.append(('horizon', 'pending_task_count'))
            raise Spin()
        return len(self.inflight)

    def get_result(self, task) -> TaskResult:
        self.ev.append(('get_result', U.tkey(task), task in self.results_map))
        return self.results_map[task]

    def remove_results(self, tasks) -> None:
        ks = tuple(U.tkey(t) for t in tasks)
        self.ev.append(('remove', ks))
        for t in tasks:
            self.results_map.pop(t, None)

    def get_task_infos(self):
        return []


class SchedBackend(RunnerBackend):

    def __init__(self, chooser: Chooser, *, batch: int = 2, stutter: bool = False, died=(), horizon: int = 64):
        self.chooser = chooser
        self.batch = batch
        self.stutter = stutter
        self.died = frozenset(died)
        self.horizon = horizon
        self.events: list[tuple] = []
        self.runner: Optional[SchedRunner] = None

    def build_runner(self, *, context, storage, max_workers) -> SchedRunner:
        self.runner = SchedRunner(context=context, storage=storage, max_workers=max_workers, backend=self)
        self.events.append(('build', max_workers))
        return self.runner
