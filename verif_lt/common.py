"""Shared plumbing: violations, evidence files, known findings, worker pool."""
from __future__ import annotations

import hashlib
import json
import os
import sys
import time
import traceback
from dataclasses import dataclass, field
from pathlib import Path
from typing import Any, Callable, Iterable, Optional

VERIF_DIR = Path(__file__).resolve().parent.parent
EVIDENCE_DIR = Path(os.environ.get('VERIF_EVIDENCE_DIR') or (VERIF_DIR / 'evidence'))
REPLAY_DIR = Path(os.environ.get('VERIF_REPLAY_DIR') or (VERIF_DIR / 'replays'))
KNOWN_FINDINGS = VERIF_DIR / 'known_findings.json'
EVIDENCE_SCHEMA = Path('/root/.vp/EVIDENCE.schema.json')
LABTECH_SRC = Path(os.environ.get('LABTECH_SRC', '/repo'))


class HarnessError(Exception):
    """The machinery itself misbehaved (non-deterministic replay, model
    mismatch).  Never reported as a property violation."""


@dataclass
class Violation:
    prop: str
    key: str            # stable identity of the failing input / site / class
    what: str           # one-line human description
    replay: dict        # everything needed to re-execute the failing case
    size: int = 0       # smaller = simpler counterexample (reported first)


@dataclass
class Result:
    prop: str
    level: str
    coverage: dict
    assumptions: list[str] = field(default_factory=list)
    violations: list[Violation] = field(default_factory=list)
    notes: list[str] = field(default_factory=list)


def jsonable(x: Any) -> Any:
    """Best-effort conversion of observation data to JSON."""
    if isinstance(x, (str, int, float, bool)) or x is None:
        return x
    if isinstance(x, dict):
        return {str(k): jsonable(v) for k, v in x.items()}
    if isinstance(x, (list, tuple, set, frozenset)):
        return [jsonable(v) for v in x]
    return repr(x)


def load_known_findings() -> dict:
    if KNOWN_FINDINGS.exists():
        return json.loads(KNOWN_FINDINGS.read_text())
    return {'findings': [], 'fixed': []}


def stable_hash(obj: Any) -> str:
    return hashlib.sha1(json.dumps(jsonable(obj), sort_keys=True).encode()).hexdigest()[:12]


def write_evidence(prop: str, tier: str, seed: int, result: Result, wall_s: float, n_viol: int) -> Path:
    EVIDENCE_DIR.mkdir(exist_ok=True)
    cov = dict(result.coverage)
    cov.setdefault('samples', [])
    cov['samples'] = jsonable(cov['samples'])[:12]
    doc = {
        'property_id': prop,
        'tier': tier,
        'seed': seed,
        'level': result.level,
        'coverage': jsonable(cov),
        'assumptions': list(result.assumptions),
        'wall_s': round(wall_s, 3),
        'violations': n_viol,
    }
    if result.notes:
        doc['coverage']['notes'] = list(result.notes)
    try:
        import jsonschema
        schema = json.loads(EVIDENCE_SCHEMA.read_text())
        jsonschema.validate(doc, schema)
    except ImportError:
        pass
    except FileNotFoundError:
        pass
    path = EVIDENCE_DIR / f'{prop}.json'
    tmp = path.with_suffix('.json.tmp')
    tmp.write_text(json.dumps(doc, indent=1, sort_keys=True) + '\n')
    os.replace(tmp, path)
    return path


def report(result: Result, tier: str, seed: int, wall_s: float) -> int:
    """Print KNOWN-FINDING / VIOLATION lines, write replay artefacts and the
    evidence file; return the process exit code."""
    known = load_known_findings()
    known_keys = {(f['property'], f['key']): f for f in known.get('findings', [])}
    by_key: dict[str, list[Violation]] = {}
    for v in result.violations:
        by_key.setdefault(v.key, []).append(v)
    new_keys = []
    seen_known = []
    for key, vs in by_key.items():
        if (result.prop, key) in known_keys:
            seen_known.append((key, vs))
        else:
            new_keys.append((key, vs))
    for key, vs in sorted(seen_known):
        f = known_keys[(result.prop, key)]
        print(f"KNOWN-FINDING: property={result.prop} {f.get('what', vs[0].what)} [key={key}; {len(vs)} cases]")
    rc = 0
    REPLAY_DIR.mkdir(exist_ok=True)
    new_keys.sort(key=lambda kv: (min(v.size for v in kv[1]), kv[0]))
    for i, (key, vs) in enumerate(new_keys):
        rc = 1
        if i >= 25:
            print(f'... {len(new_keys) - 25} further distinct violation keys not printed')
            break
        v = min(vs, key=lambda v: v.size)
        path = REPLAY_DIR / f'{result.prop}_{stable_hash(key)}.json'
        path.write_text(json.dumps({'property': result.prop, 'key': key, 'what': v.what,
                                    'replay': jsonable(v.replay)}, indent=1) + '\n')
        print(f'VIOLATION property={result.prop} replay={path}')
        print(f'  key={key} cases={len(vs)}')
        print(f'  {v.what}')
    result.coverage['violation_keys_new'] = [k for k, _ in new_keys][:50]
    result.coverage['violation_keys_known'] = [k for k, _ in seen_known]
    write_evidence(result.prop, tier, seed, result, wall_s, len(new_keys))
    cov = result.coverage
    summary = {k: cov[k] for k in ('evaluations', 'distinct_nontrivial', 'states', 'transitions',
                                   'traces_validated_against_impl', 'exhaustive') if k in cov}
    print(f'{result.prop} tier={tier} seed={seed} wall={wall_s:.1f}s '
          f'{summary} new_violation_keys={len(new_keys)} known={len(seen_known)}')
    for n in result.notes:
        print(f'  note: {n}')
    return rc


# ---------------------------------------------------------------------------
# Worker pool (the checker's own; unrelated to labtech's use of multiprocessing)

def ncores() -> int:
    try:
        return int(os.environ.get('VERIF_JOBS', '') or (os.cpu_count() or 2))
    except ValueError:
        return os.cpu_count() or 2


def _pool_call(args):
    fn, item = args
    dbg = os.environ.get('VERIF_HANG_DEBUG')
    if dbg:
        import faulthandler
        faulthandler.dump_traceback_later(int(dbg), exit=False, file=open(f'/tmp/hang_{os.getpid()}.txt', 'a'))
    try:
        return ('ok', fn(item))
    except HarnessError as e:
        return ('harness', f'{e}\n{traceback.format_exc()}')
    except BaseException as e:  # noqa
        return ('harness', f'{type(e).__name__}: {e}\n{traceback.format_exc()}')


def pmap(fn: Callable, items: Iterable, *, chunksize: int = 1, jobs: Optional[int] = None):
    """Unordered parallel map over a fork pool; results yielded as they come.
    Harness errors inside workers are re-raised in the parent."""
    items = list(items)
    jobs = jobs or ncores()
    if jobs <= 1 or len(items) <= 1:
        for it in items:
            kind, val = _pool_call((fn, it))
            if kind != 'ok':
                raise HarnessError(val)
            yield val
        return
    import multiprocessing as mp
    from concurrent.futures import ProcessPoolExecutor, as_completed
    from concurrent.futures.process import BrokenProcessPool
    ctx = mp.get_context('fork')
    chunks = [items[i:i + chunksize] for i in range(0, len(items), chunksize)]
    # (a ProcessPoolExecutor notices a worker that dies - a multiprocessing.Pool would wait for ever)
    ex = ProcessPoolExecutor(max_workers=min(jobs, len(chunks)), mp_context=ctx, initializer=_worker_init)
    try:
        futs = [ex.submit(_pool_chunk, fn, ch) for ch in chunks]
        for fut in as_completed(futs):
            try:
                results = fut.result()
            except BrokenProcessPool:
                codes = sorted({p.exitcode for p in (getattr(ex, '_processes', None) or {}).values() if p.exitcode not in (None, 0)}, key=str)
                raise HarnessError(f'a worker process of the checker died (killed or crashed; exit codes seen: {codes}) while exploring')
            for kind, val in results:
                if kind != 'ok':
                    raise HarnessError(val)
                yield val
    finally:
        ex.shutdown(wait=False, cancel_futures=True)
        for p in list(getattr(ex, '_processes', {}).values() if getattr(ex, '_processes', None) else []):
            try:
                p.terminate()
            except Exception:  # noqa
                pass


def _worker_init():
    # code under test that runs away inside a (virtual) worker - an endless loop that keeps
    # allocating - must end in a MemoryError inside that execution, not in the OOM killer taking
    # the checker's process
    try:
        import resource
        limit = 2 * 1024 ** 3
        soft, hard = resource.getrlimit(resource.RLIMIT_AS)
        if hard == resource.RLIM_INFINITY or hard > limit:
            resource.setrlimit(resource.RLIMIT_AS, (limit, hard))
    except Exception:  # noqa
        pass


def _pool_chunk(fn, chunk):
    return [_pool_call((fn, it)) for it in chunk]


def rotate(items: list, seed: int) -> list:
    """VERIF_SEED only rotates which configurations run first."""
    if not items:
        return items
    k = seed % len(items)
    return items[k:] + items[:k]


class Timer:
    def __init__(self):
        self.t0 = time.time()

    def elapsed(self) -> float:
        return time.time() - self.t0


def silence_labtech():
    import logging
    from labtech.utils import logger
    for h in list(logger.handlers):
        logger.removeHandler(h)
    logger.addHandler(logging.NullHandler())
    # lab.py's logging_redirect_tqdm adds a console handler for the duration of a
    # run; keep it quiet by raising the level (message f-strings are still built).
    logger.setLevel(logging.CRITICAL + 10)
