"""Hash-seed slice: the same E2 / serial configurations explored in a fresh interpreter
under another PYTHONHASHSEED, with a string parameter added to every task so that task
hashes (and therefore every set / dict iteration order inside labtech) depend on the seed.

usage (internal): python -m verif_lt.hashseed <PROP> <family-name>   -> JSON on stdout
"""
from __future__ import annotations

import json
import os
import subprocess
import sys

FAMILIES = {
    'shapes3': lambda F: list(F.fam_shapes(1, 3, batch=2)),
    'faults3': lambda F: list(F.fam_faults(1, 3, max_faults=2, cofs=(True,))),
    'limits3': lambda F: list(F.fam_limits(1, 3, batch=2, faults=True)),
    'shapes4': lambda F: list(F.fam_shapes(4, 4, batch=2, pre=False)),
    'faults4': lambda F: list(F.fam_faults(4, 4, max_faults=1, cofs=(True,), reqs='sinks')),
}


def child(prop: str, fam: str):
    from . import e2, families as F
    from .common import silence_labtech
    from .spy import run_once_serial
    silence_labtech()
    cfgs = FAMILIES[fam](F)
    execs = 0
    viols = []
    orders = set()
    for cfg in cfgs:
        out = e2.explore_config((cfg, [prop], 5000))
        execs += out['executions']
        for v in out['viols']:
            viols.append([v.key, v.what[:600], v.replay])
        if cfg.died:
            continue          # a task of the serial backend cannot die separately from the caller
        obs = run_once_serial(cfg)
        execs += 1
        for key, msg in e2.ORACLES[prop](obs):
            viols.append([f'serial:{key}', msg[:600] + f' | cfg={cfg.brief()}', {'engine': 'serial', 'cfg': cfg.to_json(), 'prop': prop, 'clause': key}])
        for ev in obs.events:
            if ev[0] == 'remove' and len(ev[1]) > 1:
                orders.add(ev[1])
    print(json.dumps({'executions': execs, 'configs': len(cfgs), 'viols': viols[:50], 'multi_release_orders': len(orders)}))


def run_slice(prop: str, fam: str, seed: int):
    env = dict(os.environ, PYTHONHASHSEED=str(seed), VERIF_STR_SALT='1')
    p = subprocess.run([sys.executable, '-m', 'verif_lt.hashseed', prop, fam], env=env, capture_output=True, text=True, timeout=3600)
    if p.returncode != 0:
        from .common import HarnessError
        raise HarnessError(f'hash-seed slice {prop}/{fam}/seed {seed} failed: {p.stderr[-1500:]}')
    return json.loads(p.stdout.strip().splitlines()[-1])


def _slice(a):
    return a, run_slice(*a)


if __name__ == '__main__':
    child(sys.argv[1], sys.argv[2])
