"""E3 - virtual multiprocessing layer.

labtech.runners.process reaches the OS only through module-level names
(multiprocessing, Thread, signal, os.cpu_count).  This module provides
stand-ins for them so that the real ProcessExecutor / ProcessRunner run
deterministically in one thread, and every point where the OS would decide
something becomes an explorer choice:

  * Process.start() runs the child eagerly, in-process, inside an isolation
    bracket; everything the child would make externally visible (Manager-queue
    puts, storage writes, exit-time flushes, exit) is appended to its *script*
    instead of being applied;
  * the explorer owns each child's program counter into its script; the parent
    observes children only at is_alive()/exitcode, Queue.get on an empty queue,
    and terminate(); child progress is committed lazily, only as far as the
    observation needs (child steps commute with everything that does not
    observe them).
"""
from __future__ import annotations

import collections
import logging
import os as _real_os
import pickle
import queue as _queue
import signal as _real_signal
import sys
import threading
import types
from typing import Any, Callable, Optional

from . import universe as U
from .common import HarnessError
from .sched_runner import MemStorage

CUR: Optional['VWorld'] = None


class Livelock(BaseException):
    """Ends an execution in which the parent keeps polling although nothing can ever arrive."""


class InvariantViolation:
    def __init__(self, prop, key, msg):
        self.prop, self.key, self.msg = prop, key, msg


class VChild:
    def __init__(self, idx, task_key, method, use_cache):
        self.idx = idx
        self.task_key = task_key
        self.method = method            # 'default' | 'fork' | 'spawn'
        self.use_cache = use_cache
        self.script: list = []
        self.pc = 0
        self.state = 'running'          # running | exited | killed | terminated
        self.exitcode = None
        self.result_committed = False
        self.alive_answers = 0
        self.death_observed_round = None
        self.result_consumed = False
        self.sigint_ignored = False
        self.got_sigint = False
        self.future_id = None
        self.doomed = False
        self.sigterm_handled = False  # the worker installed its own SIGTERM disposition
        self.self_killed = False      # dies by its own hand after part of its script (no result)
        self.linger = False           # never exits by itself after its script (a left-over non-daemon thread)

    def pending_put_index(self, q) -> Optional[int]:
        for i in range(self.pc, len(self.script)):
            ev = self.script[i]
            if ev[0] == 'put' and ev[1] is q:
                return i
        return None

    def result_put_index(self, world) -> Optional[int]:
        return self.pending_put_index(world.result_queue) if world.result_queue is not None else None


class VQueue:
    _ids = 0

    def __init__(self, world: 'VWorld', name: str, maxsize: int = 0):
        # like VContext, a queue does not remember the world it was created in: code under test
        # may legitimately keep a Manager queue (inside a cached executor, say) across runs
        self.name = name
        self.capacity = maxsize if maxsize and maxsize > 0 else None
        if self.capacity is not None and getattr(world, 'queue_scale', None):
            # small-scope scaling: a bounded queue of N behaves, for runs that outgrow it, like a
            # bounded queue of a few slots does for the small runs explored here
            self.capacity = min(self.capacity, world.queue_scale)
        self.buf: collections.deque = collections.deque()
        VQueue._ids += 1
        self.qid = VQueue._ids
        world.queues[self.qid] = self

    @property
    def world(self):
        w = CUR
        if self.qid not in w.queues:      # a queue carried over from an earlier execution
            w.queues[self.qid] = self
            w.queue_order.append(self)
            self.buf.clear()
        return w

    def __reduce__(self):
        return (_queue_lookup, (self.qid,))

    # -- child side / parent side put
    def put(self, item, block=True, timeout=None):
        w = self.world
        if w.current_child is not None:
            if self.capacity is not None:
                # bounded queue: the feasible schedule "the worker emits its burst before the parent
                # drains anything" - whatever does not fit is refused (put_nowait -> queue.Full)
                pending = len(self.buf) + sum(1 for ev in w.current_child.script if ev[0] == 'put' and ev[1] is self)
                if pending >= self.capacity:
                    if not block or timeout is not None:
                        raise _queue.Full()
                    # a blocking put on a full queue: the worker waits until the parent has made room;
                    # from here on its effects are ordered behind that wait
                    w.current_child.script.append(('put', self, pickle.dumps(item)))
                    return
            data = pickle.dumps(item)     # Manager queues pickle what they carry
            mode = self.mode()
            if mode == 'lazy':
                # the monitor's event queue: a worker announces itself as soon as it starts, its end
                # event becomes visible when the worker gets there (just before its result)
                mode = 'scripted' if type(item).__name__.endswith('EndEvent') else 'eager'
            if mode == 'eager':
                self.buf.append(pickle.loads(data))
            else:
                w.current_child.script.append(('put', self, data))
        else:
            self.buf.append(item)

    def put_nowait(self, item):
        self.put(item, block=False)

    def mode(self) -> str:
        return self.world.queue_mode(self)

    # -- parent side get
    def get(self, block=True, timeout=None):
        w = self.world
        if w.current_child is not None:
            raise HarnessError('virtual child read from a queue')
        if w.sched is not None and w.sched.closing and w.sched.current_helper() is not None:
            raise _queue.Empty()      # the execution is over: left-over helper threads just run out
        w.signal_point('Queue.get')
        if self.buf:
            item = self.buf.popleft()
            if self is w.result_queue:
                w.mark_consumed(item)
            return item
        blocking = bool(block) and (timeout is None or timeout > 0)
        return w.observe_empty_queue(self, blocking, infinite=bool(block) and timeout is None)

    def get_nowait(self):
        return self.get(False)

    def empty(self):
        return not self.buf

    def qsize(self):
        return len(self.buf)


def _queue_lookup(qid):
    return CUR.queues[qid]


class VManager:
    def __init__(self, world):
        self.world = world

    def Queue(self, maxsize=0):
        w = self.world
        q = VQueue(w, f'q{len(w.queues)}', maxsize)
        w.queue_order.append(q)
        return q


class VProcess:
    def __init__(self, world: 'VWorld', method: str, target=None, kwargs=None, args=(), name=None, daemon=None):
        self.world = world
        self.method = method
        self.target = target
        self.kwargs = kwargs or {}
        self.args = args
        self.child: Optional[VChild] = None
        self.name = name or 'VProcess'
        self.daemon = daemon

    @property
    def pid(self):
        return None if self.child is None else 4_000_000 + self.child.idx

    def start(self):
        self.world.signal_point('Process.start:before-the-worker-exists')
        self.world.start_child(self)
        self.world.signal_point('Process.start:worker-running')

    def is_alive(self) -> bool:
        if self.child is None:
            return False
        if self.child.state == 'terminated' and self.world.term_slow:
            self.world.signal_point('Process.is_alive')
            return True           # SIGTERM was sent, the worker has not died yet (it handles the signal, or is slow)
        r = self.world.observe_liveness(self.child)
        self.world.signal_point('Process.is_alive')
        return r

    @property
    def exitcode(self):
        if self.child is None:
            return None
        alive = self.world.observe_liveness(self.child)
        return None if alive else self.child.exitcode

    def terminate(self):
        if self.child is not None:
            self.world.terminate_child(self.child, 'terminate')
        self.world.signal_point('Process.terminate:signal-sent')

    def kill(self):
        if self.child is not None:
            self.world.terminate_child(self.child, 'kill')

    def join(self, timeout=None):
        if self.child is not None and self.child.state == 'terminated' and self.world.term_slow and timeout is None:
            self.world.record('join-blocks-forever', self.child.idx, self.child.task_key)
            self.world.record('livelock')
            raise Livelock()
        if self.child is not None and self.child.state == 'running':
            self.world.commit_all(self.child)
            if self.child.state == 'running' and self.child.linger and timeout is None:
                self.world.record('join-blocks-forever', self.child.idx, self.child.task_key)
                for cb in self.world.on_join_block:
                    cb(self.world, self.child)
                self.world.record('livelock')
                raise Livelock()

    def close(self):
        pass


class VContext:
    """A start-method context.  It deliberately does not remember the world it was created in:
    code under test that caches a context object across runs (legitimate for real
    multiprocessing contexts) must keep working - and keep being observed - in later
    executions."""

    def __init__(self, world, name):
        self._name = name

    @property
    def world(self):
        return CUR

    def get_start_method(self, allow_none=False):
        return self._name

    def Process(self, *a, **kw):
        return VProcess(CUR, self._name, *a, **kw)

    def Manager(self):
        return VManager(CUR)

    def Queue(self, maxsize=0):
        return VManager(CUR).Queue(maxsize)


class VThread:
    """Synchronous stand-in for threading.Thread: the target runs inside start()."""

    def __init__(self, target=None, args=(), kwargs=None, daemon=None, name=None):
        self.target, self.args, self.kwargs = target, args, kwargs or {}

    def start(self):
        w = CUR
        w.in_helper_thread += 1
        try:
            self.target(*self.args, **self.kwargs)
        except HarnessError:
            raise
        except Exception as e:  # noqa
            # an exception that escapes a thread's target ends that thread only (threading prints it
            # and carries on): the starter never sees it
            w.record('thread-died', type(e).__name__, str(e)[:120])
        finally:
            w.in_helper_thread -= 1

    def join(self, timeout=None):
        if CUR is not None:
            CUR.signal_point('Thread.join')

    def is_alive(self):
        return False


class HThread:
    """threading.Thread stand-in for the *threaded* mode: the target runs in a real thread, but
    only while it holds the baton, so exactly one thread runs at any time and every switch is an
    explorer choice.  Yield points: main thread - labtech LINE events in runners/process.py while a
    helper is alive, and join(); helper threads - every labtech LINE event they execute; lock
    acquisition (VLock) blocks cooperatively."""

    def __init__(self, sched: 'TSched', target=None, args=(), kwargs=None, daemon=None, name=None):
        self.sched = sched
        self.target, self.args, self.kwargs = target, args, kwargs or {}
        self.sem = threading.Semaphore(0)
        self.state = 'new'            # new | live | done
        self.idx = None
        self.real = None
        self.ident = None
        self.steps = 0
        self.waiting_lock = None
        self.born = 0

    def start(self):
        s = self.sched
        # fairness: a runnable thread is not starved for longer than two polling rounds of the
        # caller (each round = one new consumer thread, i.e. up to 0.5 s of real time)
        s.round += 1
        for h in list(s.helpers):
            if h.state == 'live' and s.round - h.born > 2:
                s.force_run(h)
        self.born = s.round
        self.idx = len(s.helpers)
        s.helpers.append(self)
        self.state = 'live'
        self.real = threading.Thread(target=self._body, daemon=True, name=f'vhelper-{self.idx}')
        self.real.start()
        self.ident = self.real.ident
        s.by_ident[self.ident] = self
        s.world.record('thread-start', self.idx)

    def _body(self):
        s = self.sched
        self.sem.acquire()
        try:
            self.target(*self.args, **self.kwargs)
        except (Livelock, HarnessError) as e:
            s.pending_main_exc = e
        except BaseException as e:  # noqa - what threading.excepthook would print
            s.crashes.append((self.idx, type(e).__name__, str(e)[:200]))
            s.world.record('thread-crashed', self.idx, type(e).__name__, str(e)[:120])
        finally:
            self.state = 'done'
            s.world.record('thread-end', self.idx)
            try:
                s.helper_finished(self)
            except BaseException as e:  # noqa - never die holding the baton
                s.pending_main_exc = e if isinstance(e, HarnessError) else HarnessError(f'thread scheduler: {type(e).__name__}: {e}')
                s.main_sem.release()

    def join(self, timeout=None):
        self.sched.main_join(self)

    def is_alive(self):
        return self.state == 'live'


class VLock:
    """threading.Lock stand-in for the threaded mode (a real lock would block the thread that
    holds the baton)."""

    def __init__(self, sched: 'TSched'):
        self.sched = sched
        self.owner = None

    def acquire(self, blocking=True, timeout=-1):
        s = self.sched
        me = s.current_helper() or 'M'
        while self.owner is not None:
            if self.owner is me or self.owner == me:
                s.world.record('self-deadlock', 'M' if me == 'M' else me.idx)
                raise Livelock()
            if not blocking:
                return False
            s.block_on_lock(me, self)
        self.owner = me
        return True

    def release(self):
        self.owner = None

    def locked(self):
        return self.owner is not None

    def __enter__(self):
        self.acquire()
        return self

    def __exit__(self, *exc):
        self.release()
        return False


class SyncLock:
    """threading.Lock stand-in for the synchronous mode (one thread): taking a lock that is
    already held can never succeed - that is a hang of the code under test, not of the checker."""

    def __init__(self):
        self.held = False

    def acquire(self, blocking=True, timeout=-1):
        if self.held:
            if not blocking:
                return False
            if CUR is not None:
                CUR.record('self-deadlock', 'M')
            raise Livelock()
        self.held = True
        return True

    def release(self):
        self.held = False

    def locked(self):
        return self.held

    def __enter__(self):
        self.acquire()
        return self

    def __exit__(self, *exc):
        self.release()
        return False


class TSched:
    """Baton scheduler for HThread helpers under a VWorld."""

    def __init__(self, world: 'VWorld'):
        self.world = world
        self.helpers: list[HThread] = []
        self.by_ident: dict = {}
        self.main_ident = threading.get_ident()
        self.main_sem = threading.Semaphore(0)
        self.main_blocked_on: Optional[HThread] = None
        self.main_waiting_lock: Optional[VLock] = None
        self.closing = False
        self.forcing = False
        self.crashes: list = []
        self.pending_main_exc = None
        self.switches = 0
        self.round = 0

    # -- queries
    def current_helper(self) -> Optional[HThread]:
        i = threading.get_ident()
        if i == self.main_ident:
            return None
        return self.by_ident.get(i)

    def live(self) -> list:
        return [h for h in self.helpers if h.state == 'live']

    @staticmethod
    def _lock_blocked(lock, me) -> bool:
        return lock is not None and lock.owner is not None and lock.owner is not me

    def runnable_helpers(self) -> list:
        return [h for h in self.helpers if h.state == 'live' and not self._lock_blocked(h.waiting_lock, h)]

    def main_runnable(self) -> bool:
        if self.forcing:
            return False
        if self._lock_blocked(self.main_waiting_lock, 'M'):
            return False
        return self.main_blocked_on is None or self.main_blocked_on.state == 'done'

    def fp(self):
        return (self.world.fp(), tuple((h.state, h.steps) for h in self.helpers), self.main_blocked_on.idx if self.main_blocked_on else None)

    # -- baton passing
    def _to_helper_from_main(self, h: HThread):
        self.switches += 1
        h.sem.release()
        if not self.main_sem.acquire(timeout=120):
            raise HarnessError('thread scheduler: the baton never came back to the main thread')
        if self.pending_main_exc is not None:
            e, self.pending_main_exc = self.pending_main_exc, None
            raise e

    def _pass(self, me: Optional[HThread], target):
        """helper `me` hands the baton to target ('M' or a helper) and, unless it is finished, waits."""
        self.switches += 1
        if target == 'M':
            self.main_sem.release()
        else:
            target.sem.release()
        if me is not None and me.state == 'live':
            me.sem.acquire()

    # -- yield points
    def main_point(self, tag):
        """main thread, about to execute a labtech line while helpers are alive."""
        if self.closing or self.forcing:
            return
        live = self.runnable_helpers()
        if not live:
            return
        c = self.world.chooser.choose(1 + len(live), ('thr', 'M', len(live)), fp=self.fp(),
                                      label_of=lambda i: 'M' if i == 0 else f'H{live[i - 1].idx}')
        if c:
            self._to_helper_from_main(live[c - 1])

    def helper_point(self, h: HThread, tag):
        if self.closing or self.forcing:
            return
        h.steps += 1
        others = [x for x in self.runnable_helpers() if x is not h]
        opts = [h] + others + (['M'] if self.main_runnable() else [])
        if len(opts) == 1:
            return
        c = self.world.chooser.choose(len(opts), ('thr', f'H{h.idx}', len(others), self.main_runnable()), fp=self.fp(),
                                      label_of=lambda i: 'M' if opts[i] == 'M' else f'H{opts[i].idx}')
        if c:
            self._pass(h, opts[c])

    def block_on_lock(self, me, lock: VLock):
        """`me` ('M' or a helper) found the lock taken: run somebody else until it may be free."""
        owner = lock.owner
        if me == 'M':
            self.main_waiting_lock = lock
            try:
                if owner == 'M' or owner.state != 'live':
                    self.world.record('lock-never-released')
                    raise Livelock()
                self._to_helper_from_main(owner)
            finally:
                self.main_waiting_lock = None
        else:
            me.waiting_lock = lock
            try:
                if owner != 'M' and owner.state != 'live':
                    self.world.record('lock-never-released')
                    self.pending_main_exc = Livelock()
                    self._pass(me, 'M')
                    return
                self._pass(me, owner)
            finally:
                me.waiting_lock = None

    def main_join(self, h: HThread):
        if h.state != 'live':
            return
        self.main_blocked_on = h
        try:
            while h.state == 'live':
                live = self.runnable_helpers()
                if not live:
                    self.world.record('deadlock')
                    raise Livelock()
                # default: the joined thread runs
                order = ([h] if h in live else []) + [x for x in live if x is not h]
                c = 0
                if len(order) > 1 and not self.closing and not self.forcing:
                    c = self.world.chooser.choose(len(order), ('thr', 'join', len(order)), fp=self.fp(),
                                                  label_of=lambda i: f'H{order[i].idx}')
                self._to_helper_from_main(order[c])
        finally:
            self.main_blocked_on = None

    def force_run(self, h: HThread):
        """main thread: let h (and whatever it needs) run to its end, without further thread choices."""
        was = self.forcing
        self.forcing = True
        try:
            while h.state == 'live':
                t = h
                if self._lock_blocked(h.waiting_lock, h):
                    t = h.waiting_lock.owner
                    if t == 'M' or t.state != 'live':
                        self.world.record('deadlock')
                        raise Livelock()
                self._to_helper_from_main(t)
        finally:
            self.forcing = was

    def helper_finished(self, h: HThread):
        """called in h's thread when its target has returned / raised: hand the baton on."""
        if self.closing or self.forcing or self.pending_main_exc is not None:
            self._pass(None, 'M')
            return
        live = self.runnable_helpers()
        opts = (['M'] if self.main_runnable() else []) + live
        if not opts:
            self.world.record('deadlock')
            self.pending_main_exc = Livelock()
            self._pass(None, 'M')
            return
        c = 0
        if len(opts) > 1:
            c = self.world.chooser.choose(len(opts), ('thr', 'end', len(live), self.main_runnable()), fp=self.fp(),
                                          label_of=lambda i: 'M' if opts[i] == 'M' else f'H{opts[i].idx}')
        self._pass(None, opts[c])

    def shutdown(self):
        """end of the execution (main thread): left-over helpers run out without further choices."""
        self.closing = True
        for _ in range(4 * len(self.helpers) + 4):
            live = self.runnable_helpers()
            if not live:
                break
            live[0].sem.release()
            if not self.main_sem.acquire(timeout=120):
                raise HarnessError('thread scheduler: a helper thread did not run out at shutdown')
        for h in self.helpers:
            if h.state == 'live':          # blocked for good (lock never released): abandon the daemon thread
                self.world.record('thread-abandoned', h.idx)
                continue
            if h.real is not None:
                h.real.join(timeout=10)
                if h.real.is_alive():
                    raise HarnessError('helper thread did not end')
        if self.pending_main_exc is not None and isinstance(self.pending_main_exc, HarnessError):
            raise self.pending_main_exc


class VSignal:
    SIGINT = _real_signal.SIGINT
    SIGTERM = _real_signal.SIGTERM
    SIG_IGN = _real_signal.SIG_IGN
    SIG_DFL = _real_signal.SIG_DFL

    def __init__(self, world):
        self.world = world

    def signal(self, signum, handler):
        w = self.world
        if w.current_child is not None:
            if signum == self.SIGINT and handler == self.SIG_IGN:
                w.current_child.sigint_ignored = True
            if signum == self.SIGTERM and handler not in (self.SIG_DFL, None):
                # the worker handles (or ignores) SIGTERM itself: terminate() no longer ends it at once
                w.current_child.sigterm_handled = True
            return self.SIG_DFL
        w.record('parent-signal', signum, handler)
        return self.SIG_DFL

    def __getattr__(self, name):
        return getattr(_real_signal, name)


class VOs:
    def __init__(self, world):
        self.world = world

    def cpu_count(self):
        return self.world.cpu_count

    def __getattr__(self, name):
        return getattr(_real_os, name)


class VMultiprocessing:
    """Module object replacing `multiprocessing` inside labtech.runners.process."""

    def __init__(self, world):
        import multiprocessing as real
        self.world = world
        self.context = real.context
        self._real = real

    def Process(self, *a, **kw):
        return VProcess(self.world, 'default', *a, **kw)

    def Manager(self):
        return VManager(self.world)

    def get_context(self, method=None):
        return VContext(self.world, method or 'default')

    def current_process(self):
        ch = self.world.current_child
        if ch is not None:
            # inside a virtual worker: its own (virtual) pid - no such process exists for psutil
            return types.SimpleNamespace(pid=4_000_000 + ch.idx, name=f'VProcess-{ch.idx}', daemon=False)
        return self._real.current_process()

    def get_start_method(self, allow_none=False):
        return 'fork'

    def get_all_start_methods(self):
        return ['fork', 'spawn']

    def cpu_count(self):
        return self.world.cpu_count


class VPsProc:
    """psutil.Process stand-in for a live virtual worker."""

    def __init__(self, world, child):
        self._w, self._c = world, child
        self.pid = 4_000_000 + child.idx

    def _check(self):
        import psutil
        if self._c.state != 'running':
            raise psutil.NoSuchProcess(self.pid)

    def oneshot(self):
        import contextlib
        self._check()
        return contextlib.nullcontext()

    def create_time(self):
        self._check()
        return 1_600_000_000.0 + self._c.idx

    def num_threads(self):
        self._check()
        return 1

    def cpu_percent(self, interval=None):
        self._check()
        return 50.0

    def memory_percent(self, memtype='rss'):
        self._check()
        return 1.5

    def children(self, recursive=False):
        self._check()
        return []


class VPsutil:
    """Module object replacing `psutil` inside labtech.runners.process: virtual pids resolve to the
    virtual workers (so the task monitor really lists them), everything else is the real psutil."""

    def __init__(self, world):
        import psutil
        self._real = psutil
        self.world = world
        self.NoSuchProcess = psutil.NoSuchProcess

    def Process(self, pid=None):
        if pid is not None and pid >= 4_000_000:
            idx = pid - 4_000_000
            ch = self.world.children[idx] if idx < len(self.world.children) else None
            if ch is None or ch.state != 'running':
                raise self._real.NoSuchProcess(pid)
            return VPsProc(self.world, ch)
        return self._real.Process(pid)

    def __getattr__(self, name):
        return getattr(self._real, name)


class VWorld:
    """State of the virtual OS for one execution."""

    def __init__(self, chooser, *, cpu_count=2, log_mode='eager', die_labels=(), die_exit0=False,
                 max_idle=1, liveness_choice=True, terminate_choice=False, threaded=False, queue_scale=None):
        self.chooser = chooser
        self.queue_scale = queue_scale
        self.sched: Optional[TSched] = TSched(self) if threaded else None
        self.cpu_count = cpu_count
        self.log_mode = log_mode
        self.die_labels = frozenset(die_labels)
        self.die_exit0 = die_exit0
        # how a dying worker ends: False = SIGKILL, True = exit status 0, an int = that exit code
        # (negative: killed by that signal number, which need not have a name - real-time signals)
        self.die_code = -9 if die_exit0 is False else (0 if die_exit0 is True else int(die_exit0))
        self.max_idle = max_idle
        self.liveness_choice = liveness_choice
        self.terminate_choice = terminate_choice
        self.queues: dict = {}
        self.queue_order: list = []
        self.children: list[VChild] = []
        self.current_child: Optional[VChild] = None
        self.in_helper_thread = 0
        self.events: list = []            # ground truth log
        self.violations: list[InvariantViolation] = []
        self.round = 0
        self.idle_rounds = 0
        self.stuck_rounds = 0
        self.delivered_this_round = False
        self.result_queue: Optional[VQueue] = None
        self.log_queue: Optional[VQueue] = None
        self.event_queue: Optional[VQueue] = None
        self.on_start: list[Callable] = []
        self.on_rest: list[Callable] = []
        self.on_killed: list[Callable] = []
        self.on_join_block: list[Callable] = []
        self.interrupted = 0              # number of interrupts delivered to the parent so far (C14)
        self.staged: Optional[list] = None
        self.draining: set = set()
        self.burst_reduced = False
        self.infinite_wait = False
        self.term_slow = False            # terminated workers do not die promptly
        self.state_when_left: dict = {}
        self.signal_hook = None           # C14 signal-faithful slice: called at instants inside (virtual) OS calls of the parent
        self.linger_labels: frozenset = frozenset()
        self.frozen = False               # after a second interrupt: executing children make no progress unless terminated

    # ---- bookkeeping
    def record(self, *ev):
        self.events.append(ev)

    def signal_point(self, label: str):
        """An instant inside an OS-level call made by the parent at which a pending signal would be
        handled (the call then raises KeyboardInterrupt instead of returning)."""
        if self.signal_hook is not None and self.current_child is None and self.in_helper_thread == 0:
            if self.sched is None or self.sched.current_helper() is None:
                self.signal_hook(label)

    def bind_runner(self, runner):
        """Tell the world which of the Manager queues is which (from the real runner object)."""
        self.result_queue = runner.executor._result_queue
        self.log_queue = runner.log_queue
        self.event_queue = runner.process_event_queue

    def queue_mode(self, q) -> str:
        if q is self.result_queue:
            return 'choice'
        if q is self.log_queue:
            return self.log_mode
        if q is self.event_queue:
            return 'lazy'
        return 'eager'

    def fp(self):
        return (tuple((c.task_key, c.state, c.pc, c.result_consumed) for c in self.children),
                tuple(len(q.buf) for q in self.queue_order), self.interrupted)

    # ---- child start
    def start_child(self, proc: VProcess):
        target, kwargs = proc.target, dict(proc.kwargs)
        thunk = kwargs.get('thunk')
        task = None
        use_cache = None
        if thunk is not None and hasattr(thunk, 'keywords'):
            task = thunk.keywords.get('task')
            use_cache = thunk.keywords.get('use_cache')
        tk = U.tkey(task) if task is not None and hasattr(task, 'label') else ('?', len(self.children))
        blob = None
        if proc.method == 'spawn':
            # the spawn start method pickles the process object in the *parent*, before the
            # child exists; an exception (or interrupt) here means no process was started
            blob = pickle.dumps(kwargs)
        # everything below stands for the OS creating the process and for the child itself:
        # no parent-side labtech line is executed, so nothing here is an interrupt point
        self.in_helper_thread += 1
        try:
            self._start_child_body(proc, target, kwargs, task, use_cache, tk, blob)
        finally:
            self.in_helper_thread -= 1

    def _start_child_body(self, proc, target, kwargs, task, use_cache, tk, blob):
        child = VChild(len(self.children), tk, proc.method, use_cache)
        child.future_id = kwargs.get('future_id')
        proc.child = child
        self.record('start', child.idx, tk, proc.method, bool(use_cache))
        for cb in self.on_start:
            cb(self, child, task)
        self.children.append(child)
        self.idle_rounds = 0
        self.stuck_rounds = 0
        child.doomed = (tk[1] in self.die_labels and not use_cache)
        child.linger = (tk[1] in self.linger_labels) and not child.doomed
        # a doomed worker runs its preamble (start event, logging set-up) and is killed at the
        # very start of the task's run(): see the ChildKilled handling below
        # --- run the child eagerly, isolated
        from labtech.utils import logger as lt_logger
        saved_handlers = list(lt_logger.handlers)
        saved_level = lt_logger.level
        root_logger = logging.getLogger()
        saved_root = (list(root_logger.handlers), root_logger.level, lt_logger.propagate)
        saved_out, saved_err = sys.stdout, sys.stderr
        import multiprocessing as real_mp
        saved_name = real_mp.current_process().name
        saved_dicts = []
        if proc.method == 'spawn':
            # a spawned worker is a fresh interpreter: its labtech logger has none of the caller's
            # handlers, only the default stream handler that importing labtech installs
            import io
            lt_logger.handlers = [logging.StreamHandler(io.StringIO())]
            # ... and the levels are the import-time defaults, whatever the caller configured
            lt_logger.setLevel(logging.INFO)
            root_logger.setLevel(logging.WARNING)
            root_logger.handlers = []
            self.current_child = child      # unpickling happens in the child
            try:
                kwargs = pickle.loads(blob)
            except BaseException:
                lt_logger.handlers = saved_handlers
                lt_logger.setLevel(saved_level)
                root_logger.handlers = saved_root[0]
                root_logger.setLevel(saved_root[1])
                raise
            finally:
                self.current_child = None
        else:
            seen = set()

            def collect(t):
                if t is None or id(t) in seen or not hasattr(t, '__dataclass_fields__'):
                    return
                seen.add(id(t))
                saved_dicts.append((t, dict(vars(t))))
                for d in U.all_dep_instances(t):
                    collect(d)
            collect(task)
        stage: list = []
        self.current_child = child
        MemStorage.STAGE = stage
        U.WORLD.child = child.idx
        killed_at = []
        saved_kill = (U.WORLD.kill_labels, U.WORLD.kill_hook)
        U.WORLD.kill_hook = lambda: killed_at.append((len(child.script), [len(q.buf) for q in self.queue_order]))
        if child.doomed:
            U.WORLD.kill_labels = frozenset([tk[1]])
        # runaway recursion inside a (virtual) worker must end as a crash of that worker, not as a
        # C-stack overflow of the checker: a tight recursion limit while the worker's code runs
        depth, fr = 0, sys._getframe()
        while fr is not None:
            depth, fr = depth + 1, fr.f_back
        saved_limit = sys.getrecursionlimit()
        sys.setrecursionlimit(min(saved_limit, depth + 350))
        try:
            try:
                target(*proc.args, **kwargs)
            except U.ChildKilled:
                pass
            except BaseException as e:  # noqa  (the real child would die with a traceback)
                self.record('child-crashed', child.idx, type(e).__name__, str(e)[:200])
                child.script.append(('crash', type(e).__name__))
            # storage effects become visible just before the result is put: place them
            # in front of the first result put (save happens before the function returns)
            if stage:
                pos = None
                for i, ev in enumerate(child.script):
                    if ev[0] == 'put' and ev[1] is self.result_queue:
                        pos = i
                        break
                ev = ('storage', list(stage))
                if pos is None:
                    child.script.append(ev)
                else:
                    child.script.insert(pos, ev)
            # BaseProcess._bootstrap flushes the std streams after the target returns
            MemStorage.STAGE = None
            for stream in (sys.stdout, sys.stderr):
                if stream is not saved_out and stream is not saved_err:
                    try:
                        stream.flush()
                    except BaseException as e:  # noqa
                        self.record('exit-flush-failed', child.idx, repr(e))
            child.script.append(('exit',))
            if killed_at and not child.doomed:
                # the task killed its own worker part-way (after some of its output): what had
                # happened by then stays, nothing after it does, and the process ends without a result
                n_script, buf_lens = killed_at[0]
                child.script = child.script[:n_script]
                for q, n in zip(self.queue_order, buf_lens):
                    while len(q.buf) > n:
                        q.buf.pop()
                child.script = [ev for ev in child.script if ev[0] != 'storage'] + [('die',)]
                child.self_killed = True
            if child.doomed:
                # keep only what happened before the kill: drop scripted effects and eager queue
                # items produced while the exception unwound (finally clauses, exit flush)
                if killed_at:
                    n_script, buf_lens = killed_at[0]
                    child.script = child.script[:n_script]
                    for q, n in zip(self.queue_order, buf_lens):
                        while len(q.buf) > n:
                            q.buf.pop()
                child.script = [ev for ev in child.script if ev[0] != 'storage' and not (ev[0] == 'put' and ev[1] is self.result_queue)]
                child.script = [ev for ev in child.script if ev[0] != 'exit'] + [('exit',)]
        finally:
            sys.setrecursionlimit(saved_limit)
            U.WORLD.kill_labels, U.WORLD.kill_hook = saved_kill
            MemStorage.STAGE = None
            self.current_child = None
            U.WORLD.child = None
            lt_logger.handlers = saved_handlers
            lt_logger.setLevel(saved_level)
            root_logger.handlers, lt_logger.propagate = saved_root[0], saved_root[2]
            root_logger.setLevel(saved_root[1])
            sys.stdout, sys.stderr = saved_out, saved_err
            real_mp.current_process().name = saved_name
            for t, d in saved_dicts:
                cur = vars(t)
                for k in list(cur):
                    if k not in d:
                        object.__delattr__(t, k)
                for k, v in d.items():
                    object.__setattr__(t, k, v)

    # ---- committing child progress
    def commit_upto(self, child: VChild, index: int):
        while child.pc <= index and child.pc < len(child.script):
            ev = child.script[child.pc]
            child.pc += 1
            if ev[0] == 'put':
                q = ev[1]
                if q.capacity is not None and len(q.buf) >= q.capacity:
                    child.pc -= 1          # blocked in put() until somebody takes an item off the queue
                    return
                q.buf.append(pickle.loads(ev[2]))
                if q is self.result_queue:
                    child.result_committed = True
                    self.record('result-put', child.idx, child.task_key)
            elif ev[0] == 'storage':
                MemStorage.apply_staged(ev[1])
                self.record('storage-commit', child.idx, child.task_key)
            elif ev[0] == 'exit':
                if child.linger:
                    child.pc -= 1          # the process stays around
                    return
                child.state = 'exited'
                child.exitcode = 0
                self.record('exit', child.idx, child.task_key)
            elif ev[0] == 'crash':
                pass
            elif ev[0] == 'die':
                child.state = 'killed'
                child.exitcode = -9
                self.record('killed', child.idx, child.task_key)
                for cb in self.on_killed:
                    cb(self, child)

    def commit_all(self, child: VChild):
        self.commit_upto(child, len(child.script) - 1)

    # ---- observations
    def observe_liveness(self, child: VChild) -> bool:
        if child.state != 'running':
            if child.death_observed_round is None:
                child.death_observed_round = self.round
            return False
        if getattr(child, 'doomed', False):
            opts = ['dead'] if child.alive_answers >= 1 else ['alive', 'dead']
            c = self.chooser.choose(len(opts), ('alive?', child.task_key, 'doomed'), fp=self.fp(), label_of=lambda i: opts[i])
            if opts[c] == 'alive':
                child.alive_answers += 1
                return True
            child.state = 'killed'
            child.pc = len(child.script)
            child.exitcode = self.die_code
            child.death_observed_round = self.round
            self.record('killed', child.idx, child.task_key)
            for cb in self.on_killed:
                cb(self, child)
            return False
        if child.self_killed and not self.frozen:
            # alive for at most one more answer, then the death shows
            if child.alive_answers >= 1 or not self.liveness_choice:
                self.commit_all(child)
                child.death_observed_round = self.round
                return False
            child.alive_answers += 1
            return True
        if not self.liveness_choice or self.frozen:
            return True
        if child.linger and child.pc >= len(child.script) - 1:
            return True                   # everything but the exit has happened, and the exit never comes
        opts = ['alive', 'exited']
        c = self.chooser.choose(2, ('alive?', child.task_key), fp=self.fp(), label_of=lambda i: opts[i])
        if c == 0:
            return True
        self.commit_all(child)
        if child.state == 'running':
            return True                   # a lingering worker: its result is out, the process is not
        child.death_observed_round = self.round
        return False

    def deliverable(self, q) -> list:
        out = []
        if self.frozen:
            return out
        for ch in self.children:
            if ch.state != 'running':
                continue
            i = ch.pending_put_index(q)
            if i is not None:
                out.append((ch, i))
        return out

    def blocked_in_put(self, ch: VChild) -> bool:
        if ch.pc < len(ch.script):
            ev = ch.script[ch.pc]
            return ev[0] == 'put' and ev[1].capacity is not None and len(ev[1].buf) >= ev[1].capacity
        return False

    def something_can_happen(self) -> bool:
        if self.frozen:
            return False
        if self.sched is not None:
            # threaded mode: another helper thread that is still alive (parked by the scheduler) may
            # hold a result it has already taken from the queue - that is progress still to come
            me = self.sched.current_helper()
            if any(h is not me for h in self.sched.live()):
                return True
        for ch in self.children:
            if ch.state == 'running' and (getattr(ch, 'doomed', False) or ch.self_killed or ch.result_put_index(self) is not None):
                if self.blocked_in_put(ch):
                    continue
                return True
        return False

    def observe_drain(self, q: VQueue):
        """Non-result queue in 'choice' mode (the log queue): the parent drains it in a loop until
        Empty, and only the *set* of records a drain picks up matters (each child's records are
        FIFO).  One choice per drain: for every running child, how many of its pending puts on this
        queue have happened by now.  The order between children inside one drain is fixed
        (child index) - it cannot change which records are delivered."""
        if q.qid in self.draining:
            self.draining.discard(q.qid)
            raise _queue.Empty()
        if self.frozen:
            raise _queue.Empty()
        per_child = []
        for ch in self.children:
            if ch.state != 'running':
                continue
            idxs = [i for i in range(ch.pc, len(ch.script)) if ch.script[i][0] == 'put' and ch.script[i][1] is q]
            if idxs:
                per_child.append((ch, idxs))
        def counts(n):
            # how many of a child's n pending puts may have happened; for a long burst only the
            # boundary counts are explored (recorded as a reduction: self.burst_reduced)
            if n <= 6:
                return list(range(n + 1))
            self.burst_reduced = True
            return [0, 1, n // 2, n - 1, n]
        opts = [counts(len(idxs)) for _, idxs in per_child]
        total = 1
        for o in opts:
            total *= len(o)
        if total == 1:
            raise _queue.Empty()
        c = self.chooser.choose(total, ('drain', q.name, tuple(len(i) for _, i in per_child)), fp=self.fp())
        any_delivered = False
        for (ch, idxs), o in zip(per_child, opts):
            k = o[c % len(o)]
            c //= len(o)
            if k:
                self.commit_upto(ch, idxs[k - 1])
                any_delivered = True
        if not any_delivered or not q.buf:
            raise _queue.Empty()
        self.draining.add(q.qid)
        return q.buf.popleft()

    def observe_empty_queue(self, q: VQueue, blocking: bool, infinite: bool = False):
        if q is not self.result_queue and q.mode() == 'choice':
            return self.observe_drain(q)
        cands = self.deliverable(q) if q.mode() == 'choice' else []
        is_result = q is self.result_queue
        if is_result and blocking and infinite:
            # a wait without time-out: whatever the OS does to the workers meanwhile goes unnoticed
            # until a result arrives.  Workers that are going to be killed die now.
            self.infinite_wait = True
            for ch in self.children:
                if ch.state == 'running' and getattr(ch, 'doomed', False):
                    ch.state = 'killed'
                    ch.pc = len(ch.script)
                    ch.exitcode = self.die_code
                    self.record('killed', ch.idx, ch.task_key)
                    for cb in self.on_killed:
                        cb(self, ch)
            cands = self.deliverable(q)
        if is_result and blocking:
            # rest point of the real stack.  Deaths observed by the liveness sampling of this
            # same poll carry the current round number (labtech reacts to them after the drain).
            self.delivered_this_round = False
            for cb in self.on_rest:
                cb(self)
            self.round += 1
        allow_empty = True
        if is_result and blocking and cands and self.idle_rounds >= self.max_idle:
            allow_empty = False
        if is_result and blocking and infinite:
            allow_empty = False
            if not cands:
                self.record('blocked-forever')
                self.record('livelock')
                raise Livelock()
        opts: list = (['empty'] if allow_empty else []) + [('deliver', ch.idx) for ch, _ in cands]
        if len(opts) == 1:
            c = 0
        else:
            c = self.chooser.choose(len(opts), ('get', q.name if q is not self.result_queue else 'result', blocking, len(cands)),
                                    fp=self.fp(), label_of=lambda i: opts[i])
        if opts[c] == 'empty':
            if is_result and blocking:
                if not self.something_can_happen():
                    self.stuck_rounds += 1
                    if self.stuck_rounds > 3:
                        self.record('livelock')
                        raise Livelock()
                self.idle_rounds += 1
            raise _queue.Empty()
        ch, idx = cands[c - (1 if allow_empty else 0)]
        self.commit_upto(ch, idx)
        if not q.buf:
            # the worker did not get as far as this put: it is blocked on another, full queue
            if is_result and blocking:
                self.stuck_rounds += 1
                if self.stuck_rounds > 3:
                    self.record('livelock')
                    raise Livelock()
            raise _queue.Empty()
        self.idle_rounds = 0
        self.stuck_rounds = 0
        self.delivered_this_round = True
        item = q.buf.popleft()
        if is_result:
            self.mark_consumed(item)
        return item

    def mark_consumed(self, item):
        try:
            fid = item[0]
        except Exception:
            return
        for ch in self.children:
            if ch.future_id == fid:
                ch.result_consumed = True

    def terminate_child(self, child: VChild, how: str):
        self.record(how, child.idx, child.task_key, child.state)
        if child.state != 'running':
            return
        if how == 'terminate' and child.sigterm_handled:
            self.record('sigterm-not-fatal', child.idx, child.task_key)
            return                 # keeps running whatever its handler allows - it was not ended at once
        if self.terminate_choice and not getattr(child, 'doomed', False):
            opts = ['no-progress', 'finished-first']
            c = self.chooser.choose(2, ('terminate', child.task_key), fp=self.fp(), label_of=lambda i: opts[i])
            if c == 1:
                self.commit_all(child)
                return
        child.state = 'terminated'
        child.exitcode = -15 if how == 'terminate' else -9
        child.pc = len(child.script)

    # ---- end of run
    def finish_children(self):
        """After run_tasks has left: let every child that was never stopped run to its end
        (their effects become visible; used by the C14 / C19 oracles)."""
        # what run_tasks left behind, before anything else is allowed to happen
        self.state_when_left = {ch.idx: (ch.state, ch.result_committed) for ch in self.children}
        for ch in self.children:
            if ch.state == 'running' and not getattr(ch, 'doomed', False):
                self.commit_all(ch)

    def executing(self) -> list:
        # (workers an EARLIER run_tasks call left behind - see E3Config.prelude / Config.history - are not
        # workers of the measured call: the statements are about one call)
        mine = [c for c in self.children if not getattr(c, 'foreign', False)]
        return [c for c in mine if c.state == 'running' and not c.result_committed and not getattr(c, 'doomed', False)
                ] + [c for c in mine if c.state == 'running' and getattr(c, 'doomed', False)]

    def disown_children(self):
        for c in self.children:
            c.foreign = True


# ---------------------------------------------------------------------------

class Patched:
    """Context manager installing the virtual layer into labtech.runners.process."""

    NAMES = ('multiprocessing', 'Thread', 'signal', 'os', 'Lock', 'RLock', 'psutil')

    def __init__(self, world: VWorld):
        self.world = world

    def __enter__(self):
        global CUR
        import labtech.runners.process as P
        self.P = P
        # a name the module no longer imports is simply not replaced (code that stops using
        # threads, say, must still be explorable - its lines then run in the calling thread)
        self.saved = {n: getattr(P, n) for n in self.NAMES if hasattr(P, n)}
        thread_cls = VThread
        if self.world.sched is not None:
            sched = self.world.sched

            def thread_cls(*a, **kw):   # noqa
                return HThread(sched, *a, **kw)
        repl = {'multiprocessing': VMultiprocessing(self.world), 'Thread': thread_cls, 'signal': VSignal(self.world), 'os': VOs(self.world)}
        repl['psutil'] = VPsutil(self.world)
        if self.world.sched is not None:
            repl['Lock'] = repl['RLock'] = lambda: VLock(sched)
        else:
            repl['Lock'], repl['RLock'] = SyncLock, threading.RLock
        for n in self.saved:
            setattr(P, n, repl[n])
        self.prev = CUR
        CUR = self.world
        return self.world

    def __exit__(self, *exc):
        global CUR
        for n, v in self.saved.items():
            setattr(self.P, n, v)
        CUR = self.prev
        MemStorage.STAGE = None
        return False
