"""Engine self-test: the explorer must find seeded bugs in a toy system, must
exhaust a known tree with the right count, and must flag a non-deterministic
harness."""
import sys

from verif_lt.common import HarnessError
from verif_lt.explore import Chooser, explore


def toy_lost_update(ch: Chooser):
    # two "threads" doing read;write on a shared counter, explorer picks who moves
    pcs = [0, 0]
    regs = [0, 0]
    shared = 0
    while any(pc < 2 for pc in pcs):
        enabled = [i for i in (0, 1) if pcs[i] < 2]
        i = enabled[ch.choose(len(enabled), ('step', tuple(pcs)), fp=(tuple(pcs), shared))]
        if pcs[i] == 0:
            regs[i] = shared
        else:
            shared = regs[i] + 1
        pcs[i] += 1
    return shared


def main():
    outcomes = []
    st = explore(toy_lost_update, lambda ch, obs: outcomes.append(obs), outcome_of=lambda o: o)
    assert st.executions == 6, st.executions          # C(4,2) interleavings
    assert set(outcomes) == {1, 2}, outcomes          # lost update found
    # deviation bound 0 => only the default schedule
    st0 = explore(toy_lost_update, lambda ch, obs: None, max_deviations=0)
    assert st0.executions == 1
    # non-deterministic harness must be detected
    flip = [0]

    def nondet(ch):
        flip[0] += 1
        ch.choose(2, 'a')
        ch.choose(2 + (flip[0] % 2), 'b')

    try:
        explore(nondet, lambda ch, obs: None)
    except HarnessError:
        pass
    else:
        raise SystemExit('self-test: non-deterministic harness not detected')
    # the E2 stack imports and runs one configuration
    from verif_lt import e2, families
    cfg = next(iter(families.fam_shapes(2, 2)))
    out = e2.explore_config((cfg, ['C01'], None))
    assert out['executions'] >= 1 and not out['viols'], out
    print('selftest ok')


if __name__ == '__main__':
    main()
