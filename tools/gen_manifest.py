#!/usr/bin/env python3
"""Regenerates /verif/MANIFEST.json from the table below (single source of truth)."""
import json
import os
from pathlib import Path

ROOT = Path(__file__).resolve().parent.parent

MC = 'model_checking'
FE = 'fault_enumeration'
EX = 'exploration'

CHECKS = {
    # id: (category, technique, text, note, engine, design_ref)
    'C01': (MC, 'stateless exhaustive schedule exploration of the real coordinator (all completion orders/batches) vs reference evaluator',
            'Every completion order and batch (<=2 quick, <=3 thorough) of every DAG shape up to n=4 (quick) / n=5 (thorough) x requested subset x pre-cached subset is executed on the real coordinator; returned dict compared with an independent sequential reference. Real SerialRunner runs are checked with the same oracle and replayed against the schedule-controlling runner.',
            'Trusted: SchedRunner follows the documented Runner contract (bound by spy-trace replay of the real SerialRunner and of the real ProcessRunner over the virtual multiprocessing layer); bounds as stated in evidence.rule.',
            'E1+E2', '5/C01'),
}

PENDING = {
}


def main():
    props = [json.loads(l) for l in (ROOT / 'properties.jsonl').read_text().splitlines() if l.strip()]
    checks = []
    na = []
    for p in props:
        pid = p['id']
        if pid in CHECKS:
            cat, tech, text, note, engine, ref = CHECKS[pid]
            checks.append({
                'property_id': pid,
                'quick_cmd': f'./check {pid} --tier quick',
                'thorough_cmd': f'./check {pid} --tier thorough',
                'evidence_file': f'/verif/evidence/{pid}.json',
                'replay_cmd_template': f'./check {pid} --replay {{path}}',
                'engine': engine,
                'level_claimed': {'category': cat, 'text': text, 'design_ref': f'DESIGN.md section {ref}'},
                'level_note': note,
                'technique': tech,
            })
        else:
            na.append({'property_id': pid,
                       'reason': PENDING.get(pid, 'check not built yet (bounded exhaustive exploration is planned, see DESIGN.md section 5); not claimed until its machinery is committed')})
    manifest = {
        'version': 1,
        'setup_cmd': 'cd /verif && ./setup.sh',
        'hooks': {
            'guard': 'LABTECH_VERIF',
            'enable': 'no source hooks: both seams (custom Runner/Storage, module-level names of labtech.runners.process) are driven from /verif; ./check exports LABTECH_VERIF=1 for symmetry only',
            'baseline_off_cmd': 'cd /repo && /venv/bin/python -m pytest -ra -q -p no:cacheprovider --timeout=900 --continue-on-collection-errors',
            'source_commits': [],
            'add_only': True,
        },
        'engines': [
            {'name': 'E1', 'path': 'verif_lt/explore.py', 'kind_free_text': 'stateless DFS choice-tree explorer with replay-determinism checks',
             'serves_properties': ['C01', 'C02', 'C03', 'C04', 'C05', 'C10', 'C11', 'C14', 'C17', 'C19']},
            {'name': 'E2', 'path': 'verif_lt/sched_runner.py', 'kind_free_text': 'schedule-controlling Runner + in-memory Storage under the real coordinator',
             'serves_properties': ['C01', 'C02', 'C03', 'C04', 'C05', 'C10', 'C11', 'C17']},
        ],
        'checks': checks,
        'not_applicable': na,
        'notes': 'All checks: ./check <ID> [--tier quick|thorough] [--replay file]; exit 0 held, 1 VIOLATION, 2 harness error. LABTECH_SRC=<dir> checks a scratch copy instead of /repo.',
    }
    (ROOT / 'MANIFEST.json').write_text(json.dumps(manifest, indent=1) + '\n')
    try:
        import jsonschema
        jsonschema.validate(manifest, json.loads(Path('/root/.vp/MANIFEST.schema.json').read_text()))
        print('MANIFEST.json valid;', len(checks), 'checks,', len(na), 'not claimed')
    except ImportError:
        print('written (jsonschema not available to validate)')


if __name__ == '__main__':
    main()
