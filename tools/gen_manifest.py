#!/usr/bin/env python3
"""Regenerates /verif/MANIFEST.json from the table below (single source of truth)."""
import json
import os
from pathlib import Path

ROOT = Path(__file__).resolve().parent.parent

MC = 'model_checking'
FE = 'fault_enumeration'
EX = 'exploration'

CHECKS = {
    # id: (category, technique, text, note, engine, design_ref)
    'C01': (MC, 'stateless exhaustive schedule exploration of the real coordinator (all completion orders/batches) vs reference evaluator',
            'Every completion order and batch (<=2 quick, <=3 thorough) of every DAG shape up to n=4 x requested subset x pre-cached subset (thorough: also n=5 with a cold cache) is executed on the real coordinator; returned dict compared with an independent sequential reference. Real SerialRunner runs are checked with the same oracle and replayed against the schedule-controlling runner.',
            'Trusted: SchedRunner follows the documented Runner contract (bound by spy-trace replay of the real SerialRunner and of the real ProcessRunner over the virtual multiprocessing layer); bounds as stated in evidence.rule.',
            'E1+E2', '5/C01'),
    'C02': (MC, 'stateless exhaustive schedule exploration; submit-time and dependency-read oracle vs construction spec',
            'At every submit_task(use_cache=False) seen by the schedule-controlling runner every reference dependency has already been yielded; every dependency read inside run() (bodies run at completion time) returns the real value of this run or raises TaskError iff the dependency failed. All completion orders of all DAG shapes n<=4/5, placements at every nesting form, single/double faults.',
            'Trusted: SchedRunner contract conformance (spy-trace replay); harness tasks read every dependency.', 'E1+E2', '5/C02'),
    'C03': (MC, 'stateless exhaustive schedule exploration with execution/load counting vs cache-aware reference closure',
            'Executions and loads counted per equality class at the runner for every schedule of every DAG x duplication pattern x pre-cached subset x request variant; executed+loaded set must equal the reference needed closure; result_meta checked on every instance by identity.',
            'Trusted: reference closure computed from the construction spec; SchedRunner conformance.', 'E1+E2', '5/C03'),
    'C04': (MC, 'stateless exhaustive schedule exploration; in-flight-per-type invariant at every submit',
            'Per-type max_parallel checked at every submit in every schedule of every DAG shape x type assignment over {None,1,2,3}, including multi-task batches and failing/dying tasks; real SerialRunner slice. (max_workers on the real ProcessExecutor is covered by the virtual-multiprocessing slice.)',
            'Trusted: in-flight set of SchedRunner = tasks submitted and not yet yielded.', 'E1+E2(+E3)', '5/C04'),
    'C05': (MC, 'stateless exhaustive schedule exploration; rest-point maximality invariant at every wait',
            'At every Runner.wait call in every schedule: for every type, no needed task with all reference dependencies finished is left unsubmitted unless the type is at its cap. DAG shapes n<=4/5 x type assignments x faults x empty polls.',
            'Trusted: readiness computed from the construction spec and the completions the coordinator has been told about.', 'E1+E2(+E3)', '5/C05'),
    'C10': (MC, 'stateless exhaustive schedule exploration over fault sets (raise / worker died) x continue_on_failure',
            'Every schedule of every DAG shape n<=4 x requested subset x fault set (<=1 quick, <=2 thorough) x kind x continue_on_failure: return/raise outcome, returned values, executed set, cache contents and LabError cause checked against the reference; no submit after the raise.',
            'Trusted: harness tasks read all their dependencies, so a task below a failed one fails with TaskError.', 'E1+E2', '5/C10'),
    'C11': (MC, 'stateless exhaustive schedule exploration; spin / horizon detection at the Runner seam',
            'In every schedule (faults, deaths, limits incl. max_parallel=1, empty polls) the coordinator never calls wait() with nothing in flight while work remains and finishes within 4n+8 waits.',
            'Logical termination only; wall-clock boundedness is sampled by real-backend runs.', 'E1+E2(+E3)', '5/C11'),
    'C17': (MC, 'stateless exhaustive schedule exploration with reference liveness; all label permutations for set order',
            'remove_results / get_result / retained-set at every rest point and at close checked against reference liveness (direct executing dependents) in every schedule, for all label permutations (n<=3 quick, n<=4 thorough) x fault sets; same oracle on the real SerialRunner results_map through a pass-through spy.',
            'Trusted: SchedRunner runs bodies at completion time so premature release also surfaces as a failed read.', 'E1+E2', '5/C17'),
    'C07': (EX, 'small-scope exhaustive enumeration of parameter trees x task types; determinism + injectivity oracle',
            'Every parameter tree up to the tier bound over a collision-prone alphabet (edge floats/strings, 4 enum classes incl. same-named members and same-named classes in two modules, nested tasks) x 7 outer types: key equal after rebuild, list/tuple and dict/frozendict spelling, pickle, serialize->deserialize, and in fresh interpreters under other hash seeds; no two tasks with different typed canonical forms share a key; LocalStorage accepts every key.',
            'Trusted: the independent canonical form in paramtree.py; pairs the statement does not decide (dict insertion order, 0.0/-0.0, equal-comparing 1/True) are not asserted.', 'E5', '5/C07'),
    'C09': (EX, 'small-scope exhaustive enumeration of parameter trees cached through real serial runs; cached_tasks compared with the set actually cached',
            'Every parameter tree to depth 2 x outer types (prefix-named, same-named in two modules, JSON cache format, protocol-2 pickle, post_init, uncached) cached in storages shared by all of them plus a foreign-format entry; every single-type and several multi-type cached_tasks queries must return exactly the cached tasks of that type once, equal, same key, stored result_meta; re-running them loads without executing. In-memory storage plus LocalStorage and fsspec-local slices.',
            'Trusted: ground truth of what was cached comes from the run() bodies recording their own cache_key.', 'E5', '5/C09'),
    'C15': (EX, 'small-scope exhaustive enumeration of supported and unsupported parameter trees x pickle protocols',
            'Every supported tree: normalisation at every depth, frozen, hashable, spelling-independent equality/hash, cross-type inequality, dependency set equal to an independent finder, serialisable; for every pickle protocol the copy is equal, same hash/key/dependencies, carries post_init-derived state and no results/context (the original carried all three). Every supported tree of depth <=2 with one position replaced by an unsupported value or non-string dict key must raise TaskError. Plus task types with ClassVar attributes, a derived type adding a parameter, a post_init that canonicalises a parameter (equal tasks hash equally) and collection objects changed between constructions.',
            'Trusted: independent dependency finder and canonical form.', 'E5', '5/C15'),
    'C06': (EX, 'exhaustive enumeration of a finite history x configuration space: run -> is_cached -> run over value/shape/clock alphabets and all backend pairs',
            'In-process: every (type, parameter tree, clock) item is executed, then re-requested through a fresh Lab and fresh equal task objects: equal value, no run(), result_meta exactly the recorded start/duration (fake datetime alphabet incl. 0, 1 us, 0.1+0.2 s, 1 day + 1 us), value embeds the identity of its task. Cross-process: all 9 ordered pairs of serial/fork/spawn with both runs in fresh interpreters under different hash seeds over one LocalStorage directory.',
            'Real fork/spawn runs are real executions of an enumerated finite list, not schedule-exhaustive; values compared through repr across processes.', 'E5+E4', '5/C06'),
    'C08': (MC, 'explicit-state BFS over histories of Lab operations against a dict reference model, canonical-state de-duplication',
            'Breadth-first search (depth 3 quick / 4 thorough on in-memory storage; 2/3 on LocalStorage, fsspec-local, NullStorage; PickleCache, protocol-2 PickleCache and a JSON cache format) over run_tasks / run_tasks(bust_cache) / uncache_tasks on every subset of size <=2 of a 5-task universe with dependencies and a cache=None type. Every transition replays the real Lab from the empty storage and compares return value, executed set, is_cached of all tasks, cached_tasks for 4 type lists, the complete storage listing and a read-back on a copy with the model. Also storage directories given as relative paths (local, fsspec) with the caller\'s working directory changing between the operations.',
            'Trusted: a Lab keeps no state between calls other than the storage (fresh Lab/task objects per operation); canonical form renames epochs by order of appearance.', 'E7', '5/C08'),
    'C18': (EX, 'small-scope exhaustive enumeration of key/filename strings x operations x layouts with before/after sandbox snapshots and an audit hook',
            'All strings of <=2 (quick) / <=3 (thorough) segments from 18 adversarial segments joined by / or \\ as key and as filename x exists / delete / file_handle in 8 modes x 4 pre-existing layouts (symlinks to outside, to a sibling key, dangling, symlinked file inside a key dir, storage reached through a symlink). After every operation nothing outside the storage directory changed or was opened, and changes are confined to one direct child and files directly inside it. Permission bits are part of the snapshot; storage objects whose directory (with its parent) was removed after construction are exercised too.',
            'Reads are observed through audit events with absolute paths; dir_fd-relative events inside rmtree are judged by the snapshot diff only.', 'E5', '5/C18'),
    'C20': (EX, 'small-scope exhaustive enumeration of task graphs; diagram text parsed back and compared with an independent traversal',
            'Task graphs over 4 typed task types with scalar / single-task / list / dict / nested-collection parameters to depth 2 (quick) / 3 (thorough) plus pairs of tasks differing in single-vs-collection use of a parameter: class blocks = reachable types once each with all parameters and the run signature; arrows = reference (dependent, parameter, dependency) set once each with the right many flag; identical text on rebuild and in fresh interpreters under other hash seeds. Also falsy task objects (a sized task of length 0) and types whose string annotations no module global resolves.',
            'Trusted: the line-form parser in props/c20.py.', 'E5', '5/C20'),
    'C12': (FE, 'exhaustive single-fault injection at every storage operation and every executed line of the save path, recovery oracle on a fresh Lab',
            'One real serial-backend run per injection point: every file_handle-for-write, every write() call and every close() of the save (raise; thorough: also partial write), every LINE event of cache.py/storage.py/serialization.py inside BaseCache.save, and results that cannot be serialised before/after one/after many frames; x PickleCache and a JSON cache format x small and multi-frame results x first save and overwrite. Afterwards a fresh Lab must either not report the task (is_cached, cached_tasks) or load a correct value without executing; cached_tasks must not raise.',
            'Single fault per run; faults are OSError subclasses; LocalStorage; line granularity (sys.monitoring), not bytecode.', 'E6', '5/C12'),
    'C13': (FE, 'exhaustive crash-state enumeration of the raw write history of a real save (all prefixes, torn writes, flushed buffers) + real SIGKILL validation',
            'The real save runs over a logging raw-file layer; every prefix of the mkdir/open/write/close log, three torn variants of every write and the all-bytes-flushed variant at every Python-level write call are materialised (first save: empty dir; overwrite: on a copy of the complete old entry) and checked by the recovery oracle (old or new value acceptable after overwrite). The log is validated by replaying it to the real final directory and by real SIGKILLs of a forked saver at traced lines, whose leftovers must equal a materialised prefix.',
            'Process kills only (completed write() calls survive); LocalStorage; pickle and JSON cache formats.', 'E6', '5/C13'),
    'C19': (MC, 'stateless exhaustive exploration of result-delivery and log-queue-delivery schedules of the real ProcessRunner over a virtual multiprocessing layer',
            'Real fork and spawn ProcessRunner + ProcessExecutor + coordinator over virtual processes whose queue puts, exit-time flushes and exits are committed lazily under explorer control: every schedule of which child has progressed how far at every parent-side observation, for 2 tasks (independent and chained; thorough: 3 tasks) x every pair of print/flush/logger/stderr emit patterns x max_workers {1,2}. When run_tasks returns each emitted fragment must have been received exactly once by a handler on labtech.logger. Emit alphabet includes output printed by a helper thread, a task-installed wrapper left around sys.stdout, carriage returns, records below the caller\'s level, and a caller whose labtech logger is at NOTSET under a root logger at INFO.',
            'Trusted: the virtual layer models multiprocessing at the granularity of labtech\'s observations (validated against real fork/spawn runs by the real-backend checks); per-drain reduction of log-queue delivery order is exact for a count oracle.', 'E1+E3', '5/C19'),
    'C16': (EX, 'exhaustive enumeration of a finite configuration space (DAG x context filter x backend) with context recorded inside run(), virtual-OS start-method ground truth and real-process runs',
            'Context: inside run() self.context equals filter_context(lab.context) for every DAG shape n<=3 x identity/per-parameter filters x 3 contexts x cold/pre-cached, on the coordinator seam, the real SerialRunner and the real fork/spawn ProcessRunner over the virtual OS; keys and every stored byte are identical under two different contexts (fixed clock) and a sentinel context value occurs in no stored file. Process model: the start method requested for every virtual worker, and real serial/fork/spawn runs x max_workers x DAG reporting pid, parent pid, thread, start method and a parent-mutated module global from inside run().',
            'The process model is observable only on real processes: an enumerated finite list of real runs.', 'E2+E3+E4', '5/C16'),
    'C14': (FE, 'exhaustive interrupt-point enumeration (sys.monitoring LINE events) layered on schedule exploration of the real runners over the virtual OS',
            'KeyboardInterrupt is raised at the k-th labtech line executed by the calling thread during run_tasks, for every k, on the real SerialRunner and on the real fork/spawn ProcessRunner over the virtual multiprocessing layer (deterministic, so process-backend line points are enumerated rather than sampled) x every schedule within the deviation bound; double interrupts with the first at one representative event per distinct source line and the second at each following event; threaded slice: the result-consumer helper thread runs as a real thread under a baton scheduler (every thread switch an explorer choice, preemption bound 2 quick / 3 thorough), interrupts at every position where the helper is alive, so that a consumer left running by an interrupt on join() is interleaved with the rest of the shutdown. Oracle: KeyboardInterrupt leaves run_tasks, nothing is started after the interrupt, workers executing at the interrupt are never terminated and their results are cached, the cache stays consistent, no endless polling; after a second interrupt every executing worker is terminated before any further wait.',
            'Line (not bytecode) granularity (line events that only announce the exit of a with block or a NOP such as `try:` are excluded: nothing can be raised there); interrupts only in labtech frames of the calling thread; the virtual layer runs workers eagerly, so the real race between fork and the worker ignoring SIGINT is outside the model; quick tier samples the first point of doubles.', 'E1+E3+E6', '5/C14'),
}

PENDING = {
}


def main():
    props = [json.loads(l) for l in (ROOT / 'properties.jsonl').read_text().splitlines() if l.strip()]
    checks = []
    na = []
    for p in props:
        pid = p['id']
        if pid in CHECKS:
            cat, tech, text, note, engine, ref = CHECKS[pid]
            checks.append({
                'property_id': pid,
                'quick_cmd': f'./check {pid} --tier quick',
                'thorough_cmd': f'./check {pid} --tier thorough',
                'evidence_file': f'/verif/evidence/{pid}.json',
                'replay_cmd_template': f'./check {pid} --replay {{path}}',
                'engine': engine,
                'level_claimed': {'category': cat, 'text': text, 'design_ref': f'DESIGN.md section {ref}'},
                'level_note': note,
                'technique': tech,
            })
        else:
            na.append({'property_id': pid,
                       'reason': PENDING.get(pid, 'check not built yet (bounded exhaustive exploration is planned, see DESIGN.md section 5); not claimed until its machinery is committed')})
    manifest = {
        'version': 1,
        'setup_cmd': 'cd /verif && ./setup.sh',
        'hooks': {
            'guard': 'LABTECH_VERIF',
            'enable': 'no source hooks: both seams (custom Runner/Storage, module-level names of labtech.runners.process) are driven from /verif; ./check exports LABTECH_VERIF=1 for symmetry only',
            'baseline_off_cmd': 'cd /repo && /venv/bin/python -m pytest -ra -q -p no:cacheprovider --timeout=900 --continue-on-collection-errors',
            'source_commits': [],
            'add_only': True,
        },
        'engines': [
            {'name': 'E1', 'path': 'verif_lt/explore.py', 'kind_free_text': 'stateless DFS choice-tree explorer with replay-determinism checks',
             'serves_properties': ['C01', 'C02', 'C03', 'C04', 'C05', 'C10', 'C11', 'C14', 'C17', 'C19']},
            {'name': 'E2', 'path': 'verif_lt/sched_runner.py', 'kind_free_text': 'schedule-controlling Runner + in-memory Storage under the real coordinator',
             'serves_properties': ['C01', 'C02', 'C03', 'C04', 'C05', 'C10', 'C11', 'C17']},
        ],
        'checks': checks,
        'not_applicable': na,
        'notes': 'All checks: ./check <ID> [--tier quick|thorough] [--replay file]; exit 0 held, 1 VIOLATION, 2 harness error. LABTECH_SRC=<dir> checks a scratch copy instead of /repo.',
    }
    (ROOT / 'MANIFEST.json').write_text(json.dumps(manifest, indent=1) + '\n')
    try:
        import jsonschema
        jsonschema.validate(manifest, json.loads(Path('/root/.vp/MANIFEST.schema.json').read_text()))
        print('MANIFEST.json valid;', len(checks), 'checks,', len(na), 'not claimed')
    except ImportError:
        print('written (jsonschema not available to validate)')


if __name__ == '__main__':
    main()
