#!/bin/bash
# usage: tools/run_all.sh <tier> [ids...]   - runs checks sequentially, prints one summary line each
tier=${1:-quick}; shift
ids=${@:-C01 C02 C03 C04 C05 C06 C07 C08 C09 C10 C11 C12 C13 C14 C15 C16 C17 C18 C19 C20}
cd "$(dirname "$0")/.."
for id in $ids; do
  s=$(date +%s)
  out=$(./check $id --tier $tier 2>&1); rc=$?
  e=$(date +%s)
  echo "$id rc=$rc $((e-s))s $(echo "$out" | grep -E "^$id tier" | cut -c1-260)"
  echo "$out" | grep -E "VIOLATION|HARNESS|KNOWN|note:" | head -5
done
