#!/usr/bin/env python3
"""Confirm a seeded change independently: in a scratch copy of /repo's tracked files
(outside /repo and /verif) run the demonstration on the pristine copy (must pass), apply
patch.diff, run the whole existing test suite (must pass: 103) and the demonstration (must
fail).  Writes the outcome into <dir>/confirm.json.  usage: confirm_seeded.py <dir>..."""
import json
import os
import shutil
import subprocess
import sys
import tempfile
from pathlib import Path


def sh(cmd, **kw):
    return subprocess.run(cmd, shell=True, stdout=subprocess.PIPE, stderr=subprocess.STDOUT, text=True, **kw)


def confirm(sdir: Path):
    scratch = Path(tempfile.mkdtemp(prefix='confirm_'))
    try:
        src = scratch / 'src'
        src.mkdir()
        sh(f'cd /repo && git ls-files -z | xargs -0 cp --parents -t {src}')
        env = dict(os.environ, PYTHONPATH=str(src), PYTHONDONTWRITEBYTECODE='1')
        out = {'repo_head': sh('git -C /repo rev-parse --short HEAD').stdout.strip()}
        r = subprocess.run(f'cd {scratch} && setsid timeout 600 /venv/bin/python {sdir}/demo.py > {scratch}/d0.log 2>&1', shell=True, env=env)
        out['demo_exit_pristine'] = r.returncode
        a = sh(f'cd {src} && git apply --unsafe-paths --directory={src} {sdir}/patch.diff || patch -p1 -i {sdir}/patch.diff')
        out['patch_applies'] = a.returncode == 0
        if a.returncode != 0:
            out['patch_error'] = a.stdout[-300:]
            return out
        r = subprocess.run(f'cd {src} && setsid timeout 1500 /venv/bin/python -m pytest -q -p no:cacheprovider --timeout=900 > {scratch}/t.log 2>&1; tail -1 {scratch}/t.log',
                           shell=True, env=env, stdout=subprocess.PIPE, text=True)
        out['tests_with_patch'] = r.stdout.strip()
        r = subprocess.run(f'cd {scratch} && setsid timeout 600 /venv/bin/python {sdir}/demo.py > {scratch}/d1.log 2>&1', shell=True, env=env)
        out['demo_exit_with_patch'] = r.returncode
        out['confirmed'] = (out['demo_exit_pristine'] == 0 and out['demo_exit_with_patch'] != 0 and '103 passed' in out['tests_with_patch'])
        return out
    finally:
        sh(f'pkill -9 -f "{scratch}" || true')
        shutil.rmtree(scratch, ignore_errors=True)


if __name__ == '__main__':
    for d in sys.argv[1:]:
        d = Path(d).resolve()
        res = confirm(d)
        (d / 'confirm.json').write_text(json.dumps(res, indent=1) + '\n')
        print(d, json.dumps(res))
