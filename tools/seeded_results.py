#!/usr/bin/env python3
"""Regenerate /verif/seeded/RESULTS.md from the meta.json files."""
import json
from pathlib import Path

root = Path(__file__).resolve().parent.parent / 'seeded'
rows = []
for d in sorted(root.iterdir()):
    m = d / 'meta.json'
    if not m.exists():
        continue
    meta = json.loads(m.read_text())
    det = meta.get('detection', {})
    caught = [p for p, r in det.items() if r.get('exit') == 1]
    keys = []
    for p in caught:
        keys += [f"{p}:{k.split(' cases=')[0].replace('key=', '')}" for k in det[p].get('keys', [])[:2]]
    rows.append((meta['id'], meta['property'], (meta.get('summary') or '').replace('\n', ' ')[:150], (meta.get('needs') or '').replace('\n', ' ')[:150],
                 ', '.join(caught) or 'NOT CAUGHT', '; '.join(keys)[:200]))
out = ['# Seeded changes and the checks that catch them', '',
       'Each change was produced by a fresh sub-agent from the property text alone, confirmed independently (suite passes with it, its demonstration',
       'fails with it and passes without it) and evaluated with `tools/seeded.py` (scratch copy via `LABTECH_SRC`, quick tier).', '',
       '| id | property | change | needs | caught by | first violation keys |', '|---|---|---|---|---|---|']
for r in rows:
    out.append('| ' + ' | '.join(x.replace('|', '/') for x in r) + ' |')
out.append('')
out.append(f'{len(rows)} changes, {sum(1 for r in rows if r[4] != "NOT CAUGHT")} caught.')
(root / 'RESULTS.md').write_text('\n'.join(out) + '\n')
print('\n'.join(out[-3:]))
