#!/usr/bin/env python3
"""Evaluate checks against seeded (deliberately broken) variants of labtech.

  tools/seeded.py eval <seeded-dir> [--props C01,C02] [--tier quick]
      copies /repo (HEAD working tree) to a scratch directory outside /repo and
      /verif, applies <seeded-dir>/patch.diff, runs the demo (must fail) and the
      given checks with LABTECH_SRC pointing at the copy, prints a summary and
      removes the scratch copy.  Evidence/replay files of these runs go to the
      scratch directory, never to /verif/evidence.
  tools/seeded.py all [--tier quick]   evaluates every /verif/seeded/*/ using
      meta.json["detected_by"] / ["property"] to select checks.
"""
import argparse
import json
import os
import shutil
import subprocess
import sys
import tempfile
import time
from pathlib import Path

VERIF = Path(__file__).resolve().parent.parent

# checks other than the seeded change's own property that are also run against it
EXTRA = {
    'C06-2': ['C07'], 'C09-2': ['C06'], 'C03-3': ['C06'], 'C10-1': ['C11', 'C05'], 'C11-2': ['C10', 'C05'], 'C11-3': ['C05'],
    'C05-2': ['C11'], 'C05-3': ['C10', 'C11'], 'C02-1': ['C03', 'C08'], 'C08-2': ['C03'], 'C17-2': ['C10'], 'C15-3': ['C07'],
    'C06-1': ['C07'], 'C07-2': ['C06', 'C09'], 'C01-2': ['C03'],
    'C07-w42': ['C09'], 'C08-w41': ['C12', 'C13'], 'C08-w43': ['C09'], 'C01-w41': ['C07', 'C06'], 'C01-w43': ['C12', 'C13'],
    'C03-w42': ['C02', 'C17'], 'C06-w41': ['C07'], 'C10-w43': ['C12', 'C13'], 'C13-w43': ['C12'], 'C12-w42': ['C13'],
    'C14-w41': ['C11'], 'C11-w43': ['C14'], 'C17-w43': ['C02'], 'C20-w42': [], 'C16-w43': ['C04'],
    # wave 5
    'C01-w51': ['C06', 'C07'], 'C01-w52': ['C16'], 'C03-w52': ['C18'], 'C03-w53': ['C06'], 'C07-w52': ['C09'], 'C08-w53': ['C07'],
    'C09-w53': ['C12', 'C13'], 'C11-w52': ['C10'], 'C12-w53': ['C06'], 'C17-w53': ['C01'], 'C15-w52': ['C03'], 'C13-w52': ['C07'],
    # wave 6
    'C03-w62': ['C08'], 'C06-w61': ['C18'], 'C06-w62': ['C07'], 'C06-w63': ['C12'], 'C08-w61': ['C09'], 'C08-w62': ['C12'],
    'C08-w63': ['C07', 'C06'], 'C17-w63': ['C01'], 'C05-w62': ['C04'], 'C07-w62': ['C09'],
    # wave 7
    'C03-w72': ['C09'], 'C03-w73': ['C15'], 'C01-w71': ['C15'], 'C07-w71': ['C09'], 'C08-w71': ['C06', 'C18'], 'C08-w72': ['C06'],
    'C06-w71': ['C12'], 'C13-w71': ['C14'], 'C02-w73': ['C01'],
    # wave 8
    'C08-w81': ['C07'], 'C08-w82': ['C09', 'C06'], 'C08-w83': ['C06'], 'C01-w82': ['C08', 'C06'], 'C01-w83': ['C16'], 'C04-w82': ['C16'],
    'C06-w82': ['C09'], 'C03-w81': ['C07'], 'C03-w82': ['C09', 'C06'], 'C05-w82': ['C11'], 'C17-w83': ['C01'], 'C02-w81': ['C01'],
    'C12-w83': ['C13'], 'C13-w81': ['C12'], 'C09-w83': ['C06'], 'C12-w82': ['C13'], 'C13-w82': ['C12'], 'C13-w83': ['C12'],
}


def run(cmd, **kw):
    return subprocess.run(cmd, stdout=subprocess.PIPE, stderr=subprocess.STDOUT, text=True, **kw)


def evaluate(sdir: Path, props, tier, demo=True, baseline=False):
    scratch = Path(tempfile.mkdtemp(prefix='seeded_'))
    try:
        src = scratch / 'src'
        src.mkdir()
        # working tree of /repo (tracked files), no .git
        r = run(['bash', '-c', f'cd /repo && git ls-files -z | xargs -0 cp --parents -t {src}'])
        if r.returncode != 0:
            return {'error': 'copy failed: ' + r.stdout}
        r = run(['git', 'apply', '--unsafe-paths', f'--directory={src}', str(sdir / 'patch.diff')], cwd=src)
        if r.returncode != 0:
            r = run(['patch', '-p1', '-i', str(sdir / 'patch.diff')], cwd=src)
            if r.returncode != 0:
                return {'error': 'patch does not apply: ' + r.stdout[-500:]}
        out = {'seeded': sdir.name, 'results': {}}
        env = dict(os.environ, PYTHONPATH=str(src), PYTHONDONTWRITEBYTECODE='1')
        if demo and (sdir / 'demo.py').exists():
            d = subprocess.run(['setsid', '/venv/bin/python', str(sdir / 'demo.py')], cwd=scratch, env=env,
                               stdout=open(scratch / 'demo.log', 'w'), stderr=subprocess.STDOUT, timeout=600)
            out['demo_exit_with_patch'] = d.returncode
        if baseline:
            b = subprocess.run(['bash', '-c', f'cd {src} && setsid /venv/bin/python -m pytest -q -p no:cacheprovider --timeout=900 > {scratch}/tests.log 2>&1; tail -1 {scratch}/tests.log'],
                               env=env, stdout=subprocess.PIPE, text=True)
            out['tests'] = b.stdout.strip()
        for p in props:
            env2 = dict(os.environ, LABTECH_SRC=str(src), VERIF_EVIDENCE_DIR=str(scratch / 'ev'),
                        VERIF_REPLAY_DIR=str(scratch / 'rp'))
            t0 = time.time()
            c = run([str(VERIF / 'check'), p, '--tier', tier], env=env2, cwd=VERIF)
            lines = [l for l in c.stdout.splitlines() if l.startswith('VIOLATION') or l.startswith('  key=')]
            out['results'][p] = {'exit': c.returncode, 'wall': round(time.time() - t0, 1),
                                 'keys': [l.strip() for l in lines if l.startswith('  key=')][:6]}
            if c.returncode == 2:
                out['results'][p]['tail'] = c.stdout[-600:]
        return out
    finally:
        shutil.rmtree(scratch, ignore_errors=True)


def main():
    ap = argparse.ArgumentParser()
    ap.add_argument('cmd', choices=['eval', 'all'])
    ap.add_argument('dir', nargs='?')
    ap.add_argument('--props', default='')
    ap.add_argument('--tier', default='quick')
    ap.add_argument('--no-demo', action='store_true')
    ap.add_argument('--tests', action='store_true')
    a = ap.parse_args()
    if a.cmd == 'eval':
        sdir = Path(a.dir).resolve()
        props = [p for p in a.props.split(',') if p]
        if not props:
            meta = json.loads((sdir / 'meta.json').read_text())
            props = meta.get('detected_by') or [meta['property']]
        print(json.dumps(evaluate(sdir, props, a.tier, demo=not a.no_demo, baseline=a.tests), indent=1))
    else:
        rc = 0
        rows = []
        only = set(a.dir.split(',')) if a.dir else None
        for sdir in sorted((VERIF / 'seeded').iterdir()):
            if not (sdir / 'patch.diff').exists():
                continue
            if only and sdir.name not in only:
                continue
            meta = json.loads((sdir / 'meta.json').read_text())
            props = [p for p in a.props.split(',') if p] or sorted(set([meta['property']] + EXTRA.get(sdir.name, [])))
            res = evaluate(sdir, props, a.tier, demo=False)
            caught = [p for p, r in res.get('results', {}).items() if r['exit'] == 1]
            print(f"{sdir.name}: caught_by={caught} " + ' '.join(f"{p}:exit{r['exit']}({r['wall']}s)" for p, r in res.get('results', {}).items())
                  + (f" ERROR {res['error']}" if 'error' in res else ''), flush=True)
            if 'results' in res:
                meta['detected_by'] = caught
                meta.setdefault('detection', {})
                for p, r in res['results'].items():
                    meta['detection'][p] = {'tier': a.tier, 'exit': r['exit'], 'keys': r['keys'], 'wall_s': r['wall']}
                (sdir / 'meta.json').write_text(json.dumps(meta, indent=1) + '\n')
            if not caught:
                rc = 1
        sys.exit(rc)


if __name__ == '__main__':
    main()
