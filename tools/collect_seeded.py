#!/usr/bin/env python3
"""Copy independently confirmed seeded changes from the sub-agents' output directory into
/verif/seeded/<PROP>-<k>/ (patch.diff, demo.py, meta.json).  usage: collect_seeded.py <src-root> [ids...]"""
import json
import shutil
import sys
from pathlib import Path

VERIF = Path(__file__).resolve().parent.parent
args = sys.argv[1:]
tag = ''
if '--tag' in args:
    i = args.index('--tag')
    tag = args[i + 1]
    del args[i:i + 2]
src_root = Path(args[0])
only = set(args[1:])
for pdir in sorted(src_root.glob('C*/[0-9]*')):
    sid = f'{pdir.parent.name}-{tag}{pdir.name}'
    if only and sid not in only:
        continue
    cj = pdir / 'confirm.json'
    if not cj.exists():
        print(sid, 'no confirm.json - skipped')
        continue
    conf = json.loads(cj.read_text())
    if not conf.get('confirmed'):
        print(sid, 'NOT confirmed - skipped', conf)
        continue
    dest = VERIF / 'seeded' / sid
    dest.mkdir(parents=True, exist_ok=True)
    shutil.copy(pdir / 'patch.diff', dest / 'patch.diff')
    shutil.copy(pdir / 'demo.py', dest / 'demo.py')
    meta = json.loads((pdir / 'meta.json').read_text())
    old = json.loads((dest / 'meta.json').read_text()) if (dest / 'meta.json').exists() else {}
    out = {
        'id': sid,
        'property': meta.get('property', pdir.parent.name),
        'summary': meta.get('summary'),
        'needs': meta.get('needs'),
        'files': meta.get('files'),
        'source': 'fresh sub-agent given only the property text and a scratch worktree',
        'confirmed_by_me': {
            'how': 'tools/confirm_seeded.py: scratch copy of /repo tracked files; demo on pristine copy; git apply patch; full pytest suite; demo again',
            'repo_head': conf.get('repo_head'),
            'demo_exit_pristine': conf.get('demo_exit_pristine'),
            'tests_with_patch': conf.get('tests_with_patch'),
            'demo_exit_with_patch': conf.get('demo_exit_with_patch'),
        },
        'rebased': (pdir / 'patch_orig.diff').exists(),
        'detected_by': old.get('detected_by', []),
        'detection': old.get('detection', {}),
    }
    (dest / 'meta.json').write_text(json.dumps(out, indent=1) + '\n')
    print(sid, 'collected')
